------------------------------ MODULE WGraphApi ------------------------------
(***************************************************************************)
(* The exported construction API of the weighted graph as a state machine: *)
(*   NewWeightedAuthorizationModelGraph ; (AddNode | GetOrAddNode | AddEdge *)
(*   | UpsertEdge | HasEdge)*                                              *)
(* It is the layer the builder of C10 is written in (one node per label,   *)
(* one edge per distinct (target, kind, tupleset) with the ORDERED SET of   *)
(* its condition names).  Abstract state: nodes by unique label, per source *)
(* label the SEQUENCE of its edges in creation order.                       *)
(*                                                                         *)
(* Binding: TLC -simulate generates behaviours; every step carries the      *)
(* operation, its arguments, the return value and the projection of the     *)
(* state after it; `Emit` prints the behaviour; harness `wgapi-replay`      *)
(* steps the real object through the same calls and reports its own         *)
(* projection after every call (lib/chk_wgraph.py compares).                *)
(***************************************************************************)
EXTENDS Integers, Sequences, FiniteSets, TLC, Json

CONSTANTS MaxSteps

Labels == {"user", "user:*", "doc#a", "doc#b", "op:1"}
NoNode == "-"                                    \* a nil *Node handed to UpsertEdge / HasEdge
NodeTypeOf(l) == CASE l = "user" -> "type" [] l = "user:*" -> "wildcard" [] l = "op:1" -> "op" [] OTHER -> "rel"
Kinds == {"direct", "rewrite", "ttu", "computed"}
Tuplesets == {"", "doc#p"}
Conds == {"", "c1", "c2"}
\* AddEdge stores what it is given (a copy of it), also a list that names a condition twice - next to itself or apart
CondLists == {<<>>, <<"c1">>, <<"c2", "c1">>, <<"c1", "c1">>, <<"c2", "c2", "c1">>, <<"c1", "c2", "c1">>}
NoCond == "none"

VARIABLES nodes,      \* [label -> [nt, wc]] for the labels added so far
          edges,      \* [label -> Seq([to, kind, ts, conds])]
          hist,       \* the behaviour so far: <<[op, args, ret, post]>>
          done
vars == <<nodes, edges, hist, done>>

EdgeSet(e) == UNION { { <<l, i, e[l][i].to, e[l][i].kind, e[l][i].ts, e[l][i].conds>> : i \in DOMAIN e[l] } : l \in DOMAIN e }
Snapshot(n, e) == [nodes |-> { <<l, n[l].nt, n[l].wc>> : l \in DOMAIN n }, edges |-> EdgeSet(e)]

FreshNode(l) == [nt |-> NodeTypeOf(l), wc |-> IF NodeTypeOf(l) = "wildcard" THEN <<SubSeq(l, 1, Len(l) - 2)>> ELSE <<>>]
Put(f, k, v) == [x \in DOMAIN f \cup {k} |-> IF x = k THEN v ELSE f[x]]
EdgesOf(l) == IF l \in DOMAIN edges THEN edges[l] ELSE <<>>
Match(e, t, k, ts) == e.to = t /\ e.kind = k /\ e.ts = ts
FirstMatch(l, t, k, ts) == LET idx == { i \in DOMAIN EdgesOf(l) : Match(EdgesOf(l)[i], t, k, ts) }
                           IN IF idx = {} THEN 0 ELSE CHOOSE i \in idx : \A j \in idx : i <= j

Record(op, args, ret, n, e) == hist' = Append(hist, [op |-> op, args |-> args, ret |-> ret, post |-> Snapshot(n, e)])

Init == nodes = [x \in {} |-> 0] /\ edges = [x \in {} |-> 0] /\ hist = <<>> /\ done = FALSE

\* AddNode replaces whatever node carried the label (edges keep pointing at the label)
AddNode(l) == /\ nodes' = Put(nodes, l, FreshNode(l)) /\ UNCHANGED edges
              /\ Record("AddNode", <<l, NodeTypeOf(l)>>, "", nodes', edges)
GetOrAddNode(l) == /\ nodes' = (IF l \in DOMAIN nodes THEN nodes ELSE Put(nodes, l, FreshNode(l))) /\ UNCHANGED edges
                   /\ Record("GetOrAddNode", <<l, NodeTypeOf(l)>>, "", nodes', edges)
\* AddEdge appends unconditionally (no de-duplication); an empty condition list becomes <<"none">>
AddEdge(f, t, k, ts, cs) == /\ f \in DOMAIN nodes /\ t \in DOMAIN nodes
                            /\ edges' = Put(edges, f, Append(EdgesOf(f), [to |-> t, kind |-> k, ts |-> ts, conds |-> IF cs = <<>> THEN <<NoCond>> ELSE cs]))
                            /\ UNCHANGED nodes
                            /\ Record("AddEdge", <<f, t, k, ts, cs>>, "", nodes, edges')
\* UpsertEdge: nil node -> error; an edge to the same target of the same kind over the same tupleset absorbs the condition
\* (appended if new, "" meaning "none"); otherwise a new edge is appended
UpsertEdge(f, t, k, ts, c) ==
  LET cc == IF c = "" THEN NoCond ELSE c
      missing == f \notin DOMAIN nodes \/ t \notin DOMAIN nodes
      i == IF missing THEN 0 ELSE FirstMatch(f, t, k, ts)
  IN /\ edges' = IF missing THEN edges
                 ELSE IF i # 0 THEN (IF \E j \in DOMAIN edges[f][i].conds : edges[f][i].conds[j] = cc THEN edges
                                     ELSE [edges EXCEPT ![f][i].conds = Append(@, cc)])
                 ELSE Put(edges, f, Append(EdgesOf(f), [to |-> t, kind |-> k, ts |-> ts, conds |-> <<cc>>]))
     /\ UNCHANGED nodes
     /\ Record("UpsertEdge", <<f, t, k, ts, c>>, IF missing THEN "error" ELSE "", nodes, edges')
HasEdge(f, t, k, ts) ==
  /\ UNCHANGED <<nodes, edges>>
  /\ Record("HasEdge", <<f, t, k, ts>>, IF f \in DOMAIN nodes /\ t \in DOMAIN nodes /\ FirstMatch(f, t, k, ts) # 0 THEN "true" ELSE "false", nodes, edges)

\* Arguments are drawn with RandomElement (TLC module) inside a singleton binder, so that a simulation step has one successor
\* per kind of call instead of ~1,300 (TLC's simulator computes all successors before it picks one): 10x more behaviours per second.
\* SimStep is used with -simulate only; Step (all arguments, for exhaustive runs to small depths) is equivalent up to the choice.
Pick(S) == {RandomElement(S)}
SimStep == /\ ~done /\ Len(hist) < MaxSteps /\ UNCHANGED done
           /\ \/ \E l \in Pick(Labels) : AddNode(l)
              \/ \E l \in Pick(Labels) : GetOrAddNode(l)
              \/ \E f \in Pick(DOMAIN nodes \cup {"user"}), t \in Pick(DOMAIN nodes \cup {"user"}), k \in Pick(Kinds), ts \in Pick(Tuplesets), cs \in Pick(CondLists) : AddEdge(f, t, k, ts, cs)
              \/ \E f \in Pick(Labels \cup {NoNode}), t \in Pick(Labels \cup {NoNode}), k \in Pick(Kinds), ts \in Pick(Tuplesets), c \in Pick(Conds) : UpsertEdge(f, t, k, ts, c)
              \* ... biased towards existing nodes and edges, where de-duplication decides
              \/ \E f \in Pick(DOMAIN nodes \cup {"user"}), t \in Pick(DOMAIN nodes \cup {"user"}), k \in Pick({"direct", "ttu"}), ts \in Pick(Tuplesets), c \in Pick(Conds) : UpsertEdge(f, t, k, ts, c)
              \/ \E f \in Pick(Labels \cup {NoNode}), t \in Pick(Labels \cup {NoNode}), k \in Pick(Kinds), ts \in Pick(Tuplesets) : HasEdge(f, t, k, ts)
              \* ... and on an edge that exists: same target / kind / tupleset with another condition, or only one of the three changed
              \/ /\ DOMAIN edges # {}
                 /\ \E f \in Pick(DOMAIN edges) : \E i \in Pick(DOMAIN edges[f]) :
                      LET e == edges[f][i] IN
                      \/ \E c \in Pick(Conds) : UpsertEdge(f, e.to, e.kind, e.ts, c)
                      \/ \E c \in Pick(Conds), k \in Pick(Kinds) : UpsertEdge(f, e.to, k, e.ts, c)
                      \/ \E c \in Pick(Conds), ts \in Pick(Tuplesets) : UpsertEdge(f, e.to, e.kind, ts, c)
                      \/ HasEdge(f, e.to, e.kind, e.ts)
                      \/ \E k \in Pick(Kinds), ts \in Pick(Tuplesets) : HasEdge(f, e.to, k, ts)
                      \/ \E cs \in Pick(CondLists) : AddEdge(f, e.to, e.kind, e.ts, cs)        \* a parallel edge: UpsertEdge then works on the first
Step == /\ ~done /\ Len(hist) < MaxSteps /\ UNCHANGED done
        /\ \/ \E l \in Labels : AddNode(l) \/ GetOrAddNode(l)
           \/ \E f, t \in Labels, k \in Kinds, ts \in Tuplesets, cs \in CondLists : AddEdge(f, t, k, ts, cs)
           \/ \E f, t \in Labels \cup {NoNode}, k \in Kinds, ts \in Tuplesets, c \in Conds : UpsertEdge(f, t, k, ts, c)
           \/ \E f, t \in Labels \cup {NoNode}, k \in Kinds, ts \in Tuplesets : HasEdge(f, t, k, ts)
Emit == /\ ~done /\ Len(hist) = MaxSteps /\ done' = TRUE /\ UNCHANGED <<nodes, edges, hist>>
        /\ PrintT(ToJson([rec |-> "behaviour", steps |-> hist]))
Next == Step \/ Emit
Spec == Init /\ [][Next]_vars
SimNext == SimStep \/ Emit
SimSpec == Init /\ [][SimNext]_vars

(***************************************************************************)
(* Design-level properties of the API (checked in every simulated state)   *)
(***************************************************************************)
\* condition lists are never empty; UpsertEdge keeps them sets in the sense that it appends a condition only where the list does not
\* hold it yet, one at a time, and a list it starts has one element (what AddEdge was given stays as it was given)
CondListsNeverEmpty == \A l \in DOMAIN edges : \A i \in DOMAIN edges[l] : Len(edges[l][i].conds) > 0
RangeOf(q) == { q[k] : k \in DOMAIN q }
UpsertAddsNoDuplicate ==
  [][(Len(hist') > Len(hist) /\ hist'[Len(hist')].op = "UpsertEdge") =>
       \A l \in DOMAIN edges' : \A i \in DOMAIN edges'[l] :
          IF l \in DOMAIN edges /\ i \in DOMAIN edges[l]
          THEN LET a == edges[l][i].conds b == edges'[l][i].conds
               IN b = a \/ (Len(b) = Len(a) + 1 /\ SubSeq(b, 1, Len(a)) = a /\ b[Len(b)] \notin RangeOf(a))
          ELSE Len(edges'[l][i].conds) = 1]_vars
\* every edge starts and ends at a node that was added
EdgesBetweenNodes == \A l \in DOMAIN edges : l \in DOMAIN nodes /\ \A i \in DOMAIN edges[l] : edges[l][i].to \in DOMAIN nodes
\* a wildcard node is born with its own type as public type
WildcardSeed == \A l \in DOMAIN nodes : nodes[l].wc = (IF nodes[l].nt = "wildcard" THEN <<SubSeq(l, 1, Len(l) - 2)>> ELSE <<>>)
\* UpsertEdge never makes a second edge for one (target, kind, tupleset); AddEdge may
UpsertKeepsEdgesDistinct ==
  [][\A f, t \in Labels, k \in Kinds, ts \in Tuplesets :
       (Len(hist') > Len(hist) /\ hist'[Len(hist')].op = "UpsertEdge")
       => Cardinality({ i \in DOMAIN (IF f \in DOMAIN edges' THEN edges'[f] ELSE <<>>) : Match(edges'[f][i], t, k, ts) })
          <= IF Cardinality({ i \in DOMAIN EdgesOf(f) : Match(EdgesOf(f)[i], t, k, ts) }) = 0 THEN 1
             ELSE Cardinality({ i \in DOMAIN EdgesOf(f) : Match(EdgesOf(f)[i], t, k, ts) })]_vars
=============================================================================
