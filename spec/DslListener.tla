------------------------------ MODULE DslListener ------------------------------
(***************************************************************************)
(* Impl layer of the DSL parser's listener (pkg/go/transformer/            *)
(* dsltojson.go): the relation-level callbacks as an automaton over        *)
(*   rw     currentRelation.Rewrites  (sequence of rewrite trees)          *)
(*   op     currentRelation.Operator  ("" | "or" | "and" | "but not")      *)
(*   stack  rewriteStack              (sequence of [rw, op])               *)
(* and its TRACE VALIDATION: every line of listener_traces.ndjson is the   *)
(* sequence of events the verif hook emitted while the real parser walked  *)
(* one relation declaration (callback, arguments, and the projection of    *)
(* the listener state after the callback: number of rewrites, operator,    *)
(* stack depth) plus the rewrite tree the parser finally stored.  Every    *)
(* trace is an initial state; acceptance = NotStuck /\ PostStateOK /\      *)
(* ResultOK.                                                               *)
(***************************************************************************)
EXTENDS Integers, Sequences, FiniteSets, TLC, Json

Traces == ndJsonDeserialize("listener_traces.ndjson")
Nil == [k |-> "nil"]

\* ParseExpression
ParseExpr(rws, o) ==
  IF Len(rws) = 0 THEN Nil
  ELSE IF Len(rws) = 1 THEN rws[1]
  ELSE CASE o = "" -> Nil
         [] o = "or" -> [k |-> "union", ch |-> rws]
         [] o = "and" -> [k |-> "inter", ch |-> rws]
         [] o = "but not" -> [k |-> "diff", ch |-> <<rws[1], rws[2]>>]

VARIABLES ti, l, rw, op, stack, result
vars == <<ti, l, rw, op, stack, result>>
Tr == Traces[ti].events
E == Tr[l]

Init == ti \in 1..Len(Traces) /\ l = 1 /\ rw = <<>> /\ op = "" /\ stack = <<>> /\ result = Nil
Step(ev) == l <= Len(Tr) /\ E.ev = ev /\ l' = l + 1 /\ ti' = ti

EnterRelDecl == Step("EnterRelDecl") /\ rw' = <<>> /\ op' = "" /\ stack' = <<>> /\ result' = result
EnterDirect == Step("EnterDirect") /\ UNCHANGED <<rw, op, stack, result>>
ExitDirect == Step("ExitDirect") /\ rw' = Append(rw, [k |-> "this"]) /\ UNCHANGED <<op, stack, result>>
ExitRewrite == Step("ExitRewrite")
               /\ rw' = Append(rw, IF E.args[2] = "" THEN [k |-> "cu", rel |-> E.args[1]] ELSE [k |-> "ttu", rel |-> E.args[1], ts |-> E.args[2]])
               /\ UNCHANGED <<op, stack, result>>
ExitRecurse == /\ Step("ExitRecurse")
               /\ (LET d == ParseExpr(rw, op) IN rw' = (IF d # Nil THEN <<d>> ELSE rw))
               /\ UNCHANGED <<op, stack, result>>
EnterRecurseND == Step("EnterRecurseND") /\ stack' = Append(stack, [rw |-> rw, op |-> op]) /\ rw' = <<>> /\ UNCHANGED <<op, result>>
ExitRecurseND == /\ Step("ExitRecurseND") /\ Len(stack) > 0
                 /\ (LET d == ParseExpr(rw, op)
                         top == stack[Len(stack)]
                     IN /\ stack' = SubSeq(stack, 1, Len(stack) - 1)
                        /\ (IF d # Nil THEN op' = top.op /\ rw' = Append(top.rw, d) ELSE UNCHANGED <<op, rw>>))
                 /\ UNCHANGED result
\* EnterRelationDefPartials sets the operator from the tokens of the partials; the hook logs the value it set
EnterPartials == Step("EnterPartials") /\ op' = E.args[1] /\ UNCHANGED <<rw, stack, result>>
\* ExitRelationDeclaration: the hook fires on entry; the relation stored is ParseExpression of the state reached
ExitRelDecl == Step("ExitRelDecl") /\ result' = ParseExpr(rw, op) /\ UNCHANGED <<rw, op, stack>>

Next == EnterRelDecl \/ EnterDirect \/ ExitDirect \/ ExitRewrite \/ ExitRecurse \/ EnterRecurseND \/ ExitRecurseND \/ EnterPartials \/ ExitRelDecl
Spec == Init /\ [][Next]_vars

\* the state projection logged after event l-1 equals the specification's state
PostStateOK == l > 1 => /\ Tr[l-1].nrw = Len(rw) /\ Tr[l-1].op = op /\ Tr[l-1].depth = Len(stack)
Done == l = Len(Tr) + 1
ResultOK == Done => result = Traces[ti].result
NotStuck == ~Done => ENABLED Next
=============================================================================
