---------------------------------- MODULE Pump ----------------------------------
(***************************************************************************)
(* C08, part c: families of inputs whose length grows linearly in n while  *)
(* one lexer/parser/graph construct is repeated (pumped): the work of an   *)
(* entry point must stay within a quadratic function of the input length.  *)
(* The families are derived from the character / token classes of          *)
(* DslLayout.tla: every separator string and every lexeme class, pumped in *)
(* every grammatical context (CONTEXTS), plus model families for the graph *)
(* builders.  The specification states the bound on recorded measurements: *)
(*   work(2n) / work(n) < 4.8 (twice in a row at or above it means super-quadratic)  *)
(***************************************************************************)
EXTENDS Integers, Sequences, FiniteSets, TLC, Json
VARIABLE st
Units == <<"\n", " \n", "\t\n", "\r\n", "\r", "\f", " \f", "(\f\n)", "  ", "\t", "(", "((", ")", "[", "[user, ", "user, ", "#", " #x", " # c\n", "x", "x ", "or ", " or a", " and a",
           " but not a", "a from ", "define ", "type t\n", "\ntype t", "\n    define a: b", "//", "/", "\"", "'", "'''", "r\"", "{", "1", "1.", ".", "-", "a-", "a.b/", ":", ",", "*", "<", "&&", "u+",
           "\r\r\n", "\r \n", "\r\t\n", " \r \r\n", "\n\r",     \* carriage returns that a single trim of the line end leaves in front of the line feed
           " # c\r", "# c\r", "  \r", "x # c\r  "     \* comments and blanks in front of a bare carriage return (the pre-pass keeps their columns)
           >>
\* contexts: [prefix, suffix, name]
Contexts == << [name |-> "top", prefix |-> "model\n  schema 1.1\n", suffix |-> "\ntype user\n"],
               [name |-> "typedef", prefix |-> "model\n  schema 1.1\ntype user\ntype doc", suffix |-> "\n  relations\n    define a: [user]\n"],
               [name |-> "relation", prefix |-> "model\n  schema 1.1\ntype user\ntype doc\n  relations\n    define a: [user] or ", suffix |-> "b\n    define b: [user]\n"],
               [name |-> "restriction", prefix |-> "model\n  schema 1.1\ntype user\ntype doc\n  relations\n    define a: [", suffix |-> "user]\n"],
               [name |-> "condition", prefix |-> "model\n  schema 1.1\ntype user\ncondition c(x: int) {\n  x < ", suffix |-> "1\n}\n"],
               [name |-> "params", prefix |-> "model\n  schema 1.1\ntype user\ncondition c(", suffix |-> "x: int) {\n  x < 1\n}\n"],
               [name |-> "bare", prefix |-> "", suffix |-> ""] >>
TextEntries == {"TransformDSLToProto", "TransformModuleFilesToModel"}
BareEntries == {"TransformJSONStringToDSL", "TransformModFile", "Validators"}
ModelFamilies == <<"chain", "ladder3", "diamonds", "ttuchain", "usersets", "wideunion", "clique", "nestleft", "nestright", "nestmixed", "wilddiamonds", "wildladder">>
ModelEntries == {"WeightedGraphBuilder.Build", "NewAuthorizationModelGraph", "TransformJSONProtoToDSL"}

GenInit == st = "start"
GenNext == /\ st = "start" /\ st' = "done"
           /\ \A u \in 1..Len(Units) : \A c \in 1..Len(Contexts) :
                 PrintT(ToJson([rec |-> "family", kind |-> "text", family |-> Contexts[c].name \o ":" \o ToString(u), prefix |-> Contexts[c].prefix, unit |-> Units[u], suffix |-> Contexts[c].suffix,
                                entries |-> IF Contexts[c].name = "bare" THEN BareEntries ELSE TextEntries]))
           /\ \A f \in 1..Len(ModelFamilies) : PrintT(ToJson([rec |-> "family", kind |-> "model", family |-> ModelFamilies[f], prefix |-> "", unit |-> "", suffix |-> "", entries |-> ModelEntries]))

\* validation of the recorded measurements
Measured == ndJsonDeserialize("pump_measured.ndjson")
CubicRatio == 48          \* ratio x 10: two consecutive doublings with work(2n) / work(n) >= 4.8 are beyond quadratic (< 4.0)
ValInit == st \in 1..Len(Measured)
ValNext == FALSE /\ st' = st
SuperQuadratic(pts) == \E i \in 1..(Len(pts) - 2) : /\ pts[i].n >= Measured[st].minn
                                                    /\ pts[i + 1].work * 10 >= CubicRatio * pts[i].work
                                                    /\ pts[i + 2].work * 10 >= CubicRatio * pts[i + 1].work
WorkWithinQuadratic == ~SuperQuadratic(Measured[st].points)
=============================================================================
