------------------------------- MODULE MergeMC -------------------------------
(***************************************************************************)
(* Bounded universe for Merge: all sequences of 1..MaxFiles files drawn    *)
(* from a pool of abstract files that covers every feature and conflict    *)
(* kind the merger knows (the same pool file may occur twice).             *)
(***************************************************************************)
EXTENDS Merge
CONSTANTS MaxFiles, PoolSeq      \* PoolSeq: the pool indices used, as a sequence (a cfg constant: cheap to reference)

T(n, rels) == [kind |-> "type", name |-> n, rels |-> rels]
X(n, rels) == [kind |-> "ext", name |-> n, rels |-> rels]
PF(h, ds, cs) == [header |-> h, decls |-> ds, conds |-> cs]
Pool == <<
  PF("m1", <<T("t", <<"r">>)>>, <<>>),                          \* 1  type with a relation
  PF("m1", <<T("t", <<>>)>>, <<"c">>),                          \* 2  bare type + condition
  PF("m2", <<T("u", <<"s">>)>>, <<"d">>),                       \* 3  another type + condition
  PF("m2", <<X("t", <<"s">>)>>, <<>>),                          \* 4  extension adding s
  PF("m2", <<X("t", <<"r">>)>>, <<>>),                          \* 5  extension adding r (clashes with 1)
  PF("m3", <<X("t", <<"s">>), X("u", <<"r">>)>>, <<>>),         \* 6  two extensions in one file
  PF("m3", <<X("z", <<"r">>)>>, <<>>),                          \* 7  extension of a missing type
  PF("",   <<T("v", <<"r">>)>>, <<>>),                          \* 8  model file, type with relation      (D12)
  PF("",   <<T("v", <<>>)>>, <<>>),                             \* 9  model file, bare type               (file is not a module)
  PF("m2", <<T("t", <<"s">>)>>, <<"c">>),                       \* 10 duplicate type and condition
  PF("m1", <<T("w", <<"r">>), X("w", <<"s">>)>>, <<>>),         \* 11 type and its extension in one file  (D13)
  PF("",   <<T("v", <<"r">>)>>, <<"c">>),                       \* 12 model file with a condition         (D4)
  PF("m3", <<X("t", <<"s", "r">>)>>, <<"d", "c">>),             \* 13 two relations, two conditions
  PF("m2", <<T("tx", <<"r">>), T("t", <<>>)>>, <<>>),           \* 14 decoy: `type tx` before `type t`     (D14)
  PF("m3", <<T("a", <<"r">>), X("t", <<"r">>)>>, <<>>),         \* 15 decoy: `define r` of another type first (D14)
  PF("m1", <<X("t", <<"r">>), X("t", <<"s">>)>>, <<>>),         \* 16 same type extended twice (syntax error)
  PF("",   <<X("t", <<"r">>)>>, <<>>),                          \* 17 extend in a model file (syntax error)
  PF("m2", <<X("t", <<>>)>>, <<>>),                             \* 18 extension without relations
  PF("m3", <<X("t", <<"R", "r">>)>>, <<"C", "c">>),             \* 19 names that differ only in case: several conflicts whose order
  PF("m2", <<X("t", <<"r", "R", "s">>)>>, <<"c", "C">>),        \* 20 a case-blind sort leaves to map iteration
  PF("m3", <<X("t", <<"s", "r">>), X("u", <<"s">>)>>, <<>>),    \* 21 rendered with continuation lines that begin with `type with ...` (FilesOf sets cont)
  PF("m1", <<T("c", <<"r">>)>>, <<"t">>),                       \* 22 a type called like the condition of 2 / 10 / 12 / 13 and a condition called like a type: different name spaces, no conflict
  PF("#",  <<>>, <<>>),                                         \* 23 comment and blank lines only: does not parse as a module
  PF("m1", <<T("q", <<>>)>>, <<"c">>),                          \* 24, 25: two files of ONE module with the same condition, word for word (FilesOf sets plain)
  PF("m1", <<>>, <<"c">>) >>

K == Len(PoolSeq)
RECURSIVE Pow(_, _)
Pow(b, e) == IF e = 0 THEN 1 ELSE b * Pow(b, e - 1)
SeqNo(n, i) == [j \in 1..n |-> PoolSeq[(((i - 1) \div Pow(K, j - 1)) % K) + 1]]
RECURSIVE IdOf(_, _)
IdOf(s, i) == IF i > Len(s) THEN "" ELSE ToString(s[i]) \o (IF i < Len(s) THEN "." ELSE "") \o IdOf(s, i + 1)
\* every second pool file is written in the loose layout, every third one (independently) with CRLF line terminators
\* file names are taken as given, also when they are not in the form a path cleaner would write
NamePrefix(k) == <<"", "", "./", "mods//", "x/../", "">>[(k % 6) + 1]
FilesOf(s) == [i \in 1..Len(s) |-> [name |-> NamePrefix(s[i] + (3 * i)) \o "f" \o ToString(i) \o ".fga", header |-> Pool[s[i]].header, decls |-> Pool[s[i]].decls, conds |-> Pool[s[i]].conds,
                                    loose |-> (s[i] + i) % 2 = 0,
                                    eol |-> IF (s[i] + (2 * i)) % 3 = 0 THEN "\r\n" ELSE "\n", cont |-> s[i] = 21, lure |-> s[i] \in {13, 19}, brace |-> s[i] \in {3, 13, 20}, plain |-> s[i] \in {24, 25}, crc |-> s[i] \in {4, 10, 13, 15}]]
RECURSIVE Off(_)
Off(n) == IF n = 0 THEN 0 ELSE Off(n - 1) + Pow(K, n)
LenFor(i) == CHOOSE n \in 1..MaxFiles : Off(n - 1) < i /\ i <= Off(n)
MCNumSets == Off(MaxFiles)
MCSetAt(i) == LET n == LenFor(i) s == SeqNo(n, i - Off(n - 1)) IN [id |-> "p" \o IdOf(s, 1), files |-> FilesOf(s)]
=============================================================================
