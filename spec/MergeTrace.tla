------------------------------ MODULE MergeTrace ------------------------------
(***************************************************************************)
(* Merge over file sets handed in from outside (merge_sets.ndjson): seeded *)
(* random file sets larger than the pool universe, and single replays.     *)
(***************************************************************************)
EXTENDS Merge
TraceSets == ndJsonDeserialize("merge_sets.ndjson")
TraceSetAt(i) == TraceSets[i]
TraceNumSets == Len(TraceSets)
=============================================================================
