--------------------------------- MODULE Dsl ---------------------------------
(***************************************************************************)
(* The DSL of openfga/language: printer (pkg/go/transformer/jsontodsl.go), *)
(* expressibility boundary and normal form (C02), canonical output (C14),  *)
(* round trip (C01).  Layouts, the violation catalogue and positions live  *)
(* in DslLayout.tla, the listener automaton in DslListener.tla.            *)
(*                                                                         *)
(* Abstract model (same shape as harness/abs.go):                          *)
(*   M = [schema, types : << [name, module, file, rels : << R >>] >>,      *)
(*        conds : << [name, module, file, params : << [name, ty, elem] >>, *)
(*                   expr] >>]                                             *)
(*   R = [name, module, file, rw, restr : << [t, kind, rel, cond] >>]      *)
(*   rw as in WGraph.tla: this | cu | ttu | union | inter | diff trees.    *)
(* Impl  : PrintM - a transcription of the printer including its sort      *)
(*         orders (byte order on strings is defined HERE, TLC has none).   *)
(* Ideal : Expressible(t), Norm(t), NormM(M).                              *)
(***************************************************************************)
EXTENDS Integers, Sequences, FiniteSets, TLC, Json

Range(s) == { s[i] : i \in 1..Len(s) }

(***************************************************************************)
(* Byte order on ASCII strings                                             *)
(***************************************************************************)
Ascii == " !\"#$%&'()*+,-./0123456789:;<=>?@ABCDEFGHIJKLMNOPQRSTUVWXYZ[\\]^_`abcdefghijklmnopqrstuvwxyz{|}~"
Rank(c) == CHOOSE i \in 1..Len(Ascii) : SubSeq(Ascii, i, i) = c
RECURSIVE Cmp(_, _, _)
Cmp(a, b, i) == IF i > Len(a) /\ i > Len(b) THEN 0
                ELSE IF i > Len(a) THEN -1 ELSE IF i > Len(b) THEN 1
                ELSE LET x == Rank(SubSeq(a, i, i)) y == Rank(SubSeq(b, i, i)) IN
                     IF x < y THEN -1 ELSE IF x > y THEN 1 ELSE Cmp(a, b, i + 1)
StrCmp(a, b) == IF a = b THEN 0 ELSE Cmp(a, b, 1)
\* sortByModule(aName, bName, aModule, bModule, aFile, bFile)
ByModule(a, b) ==
  IF a.module = "" /\ b.module = "" THEN StrCmp(a.name, b.name)
  ELSE IF a.module = "" THEN -1 ELSE IF b.module = "" THEN 1
  ELSE IF a.module # b.module THEN StrCmp(a.module, b.module)
  ELSE IF a.file # b.file THEN StrCmp(a.file, b.file)
  ELSE StrCmp(a.name, b.name)
LtByModule(a, b) == ByModule(a, b) < 0
LtByName(a, b) == StrCmp(a.name, b.name) < 0
\* stable insertion sort (the code uses stable sorts; SortSeq of the standard module gives no such promise);
\* mode "module" = sortByModule, mode "name" = by name  (SANY rejects recursion through operator arguments)
Lt(mode, a, b) == IF mode = "module" THEN LtByModule(a, b) ELSE LtByName(a, b)
RECURSIVE InsertSorted(_, _, _, _)
InsertSorted(s, x, mode, i) == IF i > Len(s) THEN Append(s, x)
                               ELSE IF Lt(mode, x, s[i]) THEN SubSeq(s, 1, i - 1) \o <<x>> \o SubSeq(s, i, Len(s))
                               ELSE InsertSorted(s, x, mode, i + 1)
RECURSIVE StableSort(_, _, _, _)
StableSort(s, mode, i, acc) == IF i > Len(s) THEN acc ELSE StableSort(s, mode, i + 1, InsertSorted(acc, s[i], mode, 1))
SortBy(s, mode) == StableSort(s, mode, 1, <<>>)

RECURSIVE Join(_, _, _)
Join(s, sep, i) == IF i > Len(s) THEN "" ELSE IF i = Len(s) THEN s[i] ELSE s[i] \o sep \o Join(s, sep, i + 1)

(***************************************************************************)
(* Impl: the printer                                                       *)
(***************************************************************************)
Restriction(x) == x.t \o (IF x.kind = "wild" THEN ":*" ELSE "") \o (IF x.rel # "" THEN "#" \o x.rel ELSE "") \o (IF x.cond # "" THEN " with " \o x.cond ELSE "")
This(restr) == "[" \o Join([i \in 1..Len(restr) |-> Restriction(restr[i])], ", ", 1) \o "]"
RemoveAt(s, i) == SubSeq(s, 1, i - 1) \o SubSeq(s, i + 1, Len(s))
\* prioritizeDirectAssignment: the first `this` child of a union / intersection is moved to the front
Hoist(ch) == IF \E i \in 1..Len(ch) : ch[i].k = "this"
             THEN LET i == CHOOSE j \in 1..Len(ch) : ch[j].k = "this" /\ \A m \in 1..(j-1) : ch[m].k # "this" IN <<ch[i]>> \o RemoveAt(ch, i)
             ELSE ch
OpSep(k) == CASE k = "union" -> " or " [] k = "inter" -> " and " [] k = "diff" -> " but not "
IsLeaf(t) == t.k \in {"this", "cu", "ttu"}
RECURSIVE Sub(_, _)
Body(t, restr) == LET ch == IF t.k = "diff" THEN t.ch ELSE Hoist(t.ch) IN Join([i \in 1..Len(ch) |-> Sub(ch[i], restr)], OpSep(t.k), 1)
Sub(t, restr) == CASE t.k = "this" -> This(restr)
                   [] t.k = "cu" -> t.rel
                   [] t.k = "ttu" -> t.rel \o " from " \o t.ts
                   [] OTHER -> "(" \o Body(t, restr) \o ")"
Top(t, restr) == IF IsLeaf(t) THEN Sub(t, restr) ELSE Body(t, restr)

RECURSIVE CountThis(_)
RECURSIVE SumThis(_, _)
CountThis(t) == IF t.k = "this" THEN 1 ELSE IF IsLeaf(t) THEN 0 ELSE SumThis(t.ch, 1)
SumThis(ch, i) == IF i > Len(ch) THEN 0 ELSE CountThis(ch[i]) + SumThis(ch, i + 1)
\* DirectAssignmentValidator.isFirstPosition
RECURSIVE IsFirstPosition(_)
IsFirstPosition(t) == CASE t.k = "this" -> TRUE
                        [] IsLeaf(t) -> FALSE
                        [] t.k = "diff" -> IsFirstPosition(t.ch[1])
                        [] OTHER -> (\E i \in 1..Len(t.ch) : t.ch[i].k = "this") \/ IsFirstPosition(t.ch[1])
PrinterAccepts(t) == CountThis(t) = 0 \/ (CountThis(t) = 1 /\ IsFirstPosition(t))

\* module and file names are printed inside a one-line comment: line breaks in them are replaced by a blank (D21)
RECURSIVE OneLine(_)
OneLine(x) == IF x = "" THEN "" ELSE (IF SubSeq(x, 1, 1) \in {"\n", "\r"} THEN " " ELSE SubSeq(x, 1, 1)) \o OneLine(SubSeq(x, 2, Len(x)))
Src(module, file, lead, on) == IF (module = "" /\ file = "") \/ ~on THEN "" ELSE " #" \o lead \o " module: " \o OneLine(module) \o ", file: " \o OneLine(file)
Relation(r, on) == "    define " \o r.name \o ": " \o Top(r.rw, r.restr) \o Src(r.module, r.file, " extended by:", on)
TypeStr(t, modular, on) ==
  LET rels == IF modular THEN SortBy(t.rels, "module") ELSE SortBy(t.rels, "name") IN
  "type " \o t.name \o Src(t.module, t.file, "", on)
  \o (IF Len(rels) = 0 THEN "" ELSE "\n  relations" \o Join([i \in 1..Len(rels) |-> "\n" \o Relation(rels[i], on)], "", 1))
Lower(ty) == CASE ty = "TYPE_NAME_INT" -> "int" [] ty = "TYPE_NAME_STRING" -> "string" [] ty = "TYPE_NAME_BOOL" -> "bool"
               [] ty = "TYPE_NAME_UINT" -> "uint" [] ty = "TYPE_NAME_DOUBLE" -> "double" [] ty = "TYPE_NAME_DURATION" -> "duration"
               [] ty = "TYPE_NAME_TIMESTAMP" -> "timestamp" [] ty = "TYPE_NAME_IPADDRESS" -> "ipaddress"
               [] ty = "TYPE_NAME_LIST" -> "list" [] ty = "TYPE_NAME_MAP" -> "map" [] ty = "TYPE_NAME_ANY" -> "any"
               [] ty = "TYPE_NAME_UNSPECIFIED" -> "unspecified"
Param(p) == p.name \o ": " \o (IF Lower(p.ty) \in {"list", "map"} THEN Lower(p.ty) \o "<" \o Lower(p.elem) \o ">" ELSE Lower(p.ty))
Cond(c, on) == LET ps == SortBy(c.params, "name") IN
  "condition " \o c.name \o "(" \o Join([i \in 1..Len(ps) |-> Param(ps[i])], ", ", 1) \o ") {\n  " \o c.expr \o "\n}" \o Src(c.module, c.file, "", on) \o "\n"
IsModular(M) == \E i \in 1..Len(M.types) : M.types[i].module # ""
PrintM(M, on) ==
  LET modular == IsModular(M)
      ts == IF modular THEN SortBy(M.types, "module") ELSE M.types
      cs == SortBy(M.conds, "module")
  IN "model\n  schema " \o M.schema \o "\n"
     \o Join([i \in 1..Len(ts) |-> "\n" \o TypeStr(ts[i], modular, on)], "\n", 1) \o (IF Len(ts) > 0 THEN "\n" ELSE "")
     \o Join([i \in 1..Len(cs) |-> "\n" \o Cond(cs[i], on)], "", 1)
PrintableM(M) == \A i \in 1..Len(M.types) : \A j \in 1..Len(M.types[i].rels) : PrinterAccepts(M.types[i].rels[j].rw)

(***************************************************************************)
(* Ideal: expressibility and the normal form after print + parse (C02)     *)
(***************************************************************************)
\* the single direct assignment can be placed first, recursively from the root
RECURSIVE Placeable(_)
Placeable(t) == CASE t.k = "this" -> TRUE
                  [] IsLeaf(t) -> FALSE
                  [] t.k = "diff" -> Placeable(t.ch[1])
                  [] OTHER -> (\E i \in 1..Len(t.ch) : t.ch[i].k = "this") \/ Placeable(t.ch[1])
Expressible(t) == CountThis(t) = 0 \/ (CountThis(t) = 1 /\ Placeable(t))
RECURSIVE Norm(_)
Norm(t) == IF IsLeaf(t) THEN t
           ELSE IF t.k = "diff" THEN [k |-> "diff", ch |-> <<Norm(t.ch[1]), Norm(t.ch[2])>>]
           ELSE IF Len(t.ch) = 1 THEN Norm(t.ch[1])
           ELSE LET h == Hoist(t.ch) IN [k |-> t.k, ch |-> [i \in 1..Len(h) |-> Norm(h[i])]]
NormRel(r) == [r EXCEPT !.rw = Norm(r.rw), !.restr = IF CountThis(r.rw) = 0 THEN <<>> ELSE r.restr]
\* what parsing the printed DSL gives back: normalised rewrites, relations by name, module attribution is not
\* carried by the DSL text of a full model (source comments are comments)
NormM(M) == [schema |-> M.schema,
             types |-> [i \in 1..Len(M.types) |-> [name |-> M.types[i].name,
                          rels |-> SortBy([j \in 1..Len(M.types[i].rels) |-> [name |-> M.types[i].rels[j].name, rw |-> NormRel(M.types[i].rels[j]).rw,
                                                                               restr |-> NormRel(M.types[i].rels[j]).restr]], "name")]],
             conds |-> SortBy([i \in 1..Len(M.conds) |-> [name |-> M.conds[i].name, expr |-> M.conds[i].expr,
                                                          params |-> SortBy(M.conds[i].params, "name")]], "name")]

\* design-level statements (checked by TLC on every generated tree / model)
ExpressibleIffPrintable(t) == PrinterAccepts(t) <=> Expressible(t)
AssignableIffBracket(t) == (CountThis(t) > 0) <=> (\E i \in 1..Len(Top(t, <<[t |-> "user", kind |-> "type", rel |-> "", cond |-> ""]>>)) :
                                                     SubSeq(Top(t, <<[t |-> "user", kind |-> "type", rel |-> "", cond |-> ""]>>), i, i) = "[")

(***************************************************************************)
(* Comment stripping as the pre-pass of the parser does it (C14)           *)
(***************************************************************************)
RECURSIVE SplitLines(_, _, _)
SplitLines(s, i, cur) == IF i > Len(s) THEN <<cur>> ELSE IF SubSeq(s, i, i) = "\n" THEN <<cur>> \o SplitLines(s, i + 1, "") ELSE SplitLines(s, i + 1, cur \o SubSeq(s, i, i))
RECURSIVE CutAt(_, _)
CutAt(line, i) == IF i + 1 > Len(line) THEN line ELSE IF SubSeq(line, i, i + 1) = " #" THEN SubSeq(line, 1, i - 1) ELSE CutAt(line, i + 1)
RECURSIVE TrimRight(_)
TrimRight(s) == IF Len(s) > 0 /\ SubSeq(s, Len(s), Len(s)) = " " THEN TrimRight(SubSeq(s, 1, Len(s) - 1)) ELSE s
StripLine(line) == TrimRight(CutAt(line, 1))
StripComments(s) == LET ls == SplitLines(s, 1, "") IN Join([i \in 1..Len(ls) |-> StripLine(ls[i])], "\n", 1)
SourceCommentsInert(M) == PrintableM(M) => StripComments(PrintM(M, TRUE)) = PrintM(M, FALSE)
=============================================================================
