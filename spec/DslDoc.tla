------------------------------- MODULE DslDoc -------------------------------
(***************************************************************************)
(* Impl layer of the DSL parser: the WHOLE listener of                     *)
(* pkg/go/transformer/dsltojson.go as an automaton, one action per         *)
(* callback, over the abstract listener state                              *)
(*   schema, modular, module, exts (typeDefExtensions; hasExts: non-nil)   *)
(*   types   authorizationModel.TypeDefinitions (sequence)                 *)
(*   conds   authorizationModel.Conditions      (function name -> record)  *)
(*   cur     currentTypeDef   (Nil | [name, rels : name -> [rw, restr, module]]) *)
(*   rel     currentRelation  (Nil | [rw, op, restr])    stack rewriteStack *)
(*   cond    currentCondition (Nil | [name, expr, params, hasmeta, module]) *)
(*   errs    what the listener passed to NotifyErrorListeners, in order    *)
(*   panic   a nil dereference / index out of range the Go code would hit  *)
(* Nil guards and early returns are transcribed (error recovery of the     *)
(* parser hands the listener contexts with missing parts).                 *)
(*                                                                         *)
(* Two uses of the same actions (Mode):                                    *)
(*  "mc"    the events are DocEv(D) of spec/DslWalk.tla for the documents  *)
(*          of the layout universe, valid ones and the catalogue's         *)
(*          violations the LISTENER has to catch (5-9): invariants         *)
(*          ValidDocYieldsModelWritten (C03: Impl refines Ideal ModelOf),  *)
(*          ViolationRaisesItsError (C09), NeverPanics, type invariants.   *)
(*  "trace" the events are those the verif hook VerifDocTrace recorded     *)
(*          from the real parser (every callback, deferred: arguments      *)
(*          read from the context + projection of the listener state       *)
(*          after it): PostStateOK after every event, NotStuck, and at the *)
(*          end Result*OK: accumulated model, extension names and the       *)
(*          listener-raised errors (message and position) are the ones the *)
(*          automaton computes.                                            *)
(***************************************************************************)
EXTENDS DslLayoutMC

CONSTANTS Mode, DocJobAt(_), NumDocJobs
Traces == IF Mode = "trace" THEN ndJsonDeserialize("doc_traces.ndjson") ELSE <<>>
NumRuns == IF Mode = "trace" THEN Len(Traces) ELSE NumDocJobs

Nil == [k |-> "nil"]
EmptyFn == [x \in {} |-> Nil]
InitSt == [schema |-> "", modular |-> FALSE, module |-> "", hasExts |-> FALSE, exts |-> {}, types |-> <<>>, conds |-> EmptyFn,
           cur |-> Nil, rel |-> Nil, stack |-> <<>>, cond |-> Nil, errs |-> <<>>, panic |-> FALSE]

VARIABLES ri, evs, l, st, want
dvars == <<ri, evs, l, st, want, ji, job>>     \* (ji, job: the unused variables of DslLayoutMC, whose document universe is reused)

\* ParseExpression
ParseExpr(rws, o) ==
  IF Len(rws) = 0 THEN Nil
  ELSE IF Len(rws) = 1 THEN rws[1]
  ELSE CASE o = "" -> Nil
         [] o = "or" -> [k |-> "union", ch |-> rws]
         [] o = "and" -> [k |-> "inter", ch |-> rws]
         [] o = "but not" -> [k |-> "diff", ch |-> <<rws[1], rws[2]>>]
\* ConditionParamTypeRef_TypeName_value["TYPE_NAME_" + upper(s)] (0 = UNSPECIFIED for a word the enum lacks)
TypeNameOf(s) == CASE s = "int" -> "TYPE_NAME_INT" [] s = "string" -> "TYPE_NAME_STRING" [] s = "bool" -> "TYPE_NAME_BOOL" [] s = "uint" -> "TYPE_NAME_UINT"
                   [] s = "double" -> "TYPE_NAME_DOUBLE" [] s = "duration" -> "TYPE_NAME_DURATION" [] s = "timestamp" -> "TYPE_NAME_TIMESTAMP"
                   [] s = "ipaddress" -> "TYPE_NAME_IPADDRESS" [] s = "list" -> "TYPE_NAME_LIST" [] s = "map" -> "TYPE_NAME_MAP" [] s = "any" -> "TYPE_NAME_ANY"
                   [] OTHER -> "TYPE_NAME_UNSPECIFIED"
RECURSIVE TrimRightNL(_)
TrimRightNL(s) == IF Len(s) > 0 /\ SubSeq(s, Len(s), Len(s)) = "\n" THEN TrimRightNL(SubSeq(s, 1, Len(s) - 1)) ELSE s
Err(s, msg, line, col) == [s EXCEPT !.errs = Append(@, [msg |-> msg, line |-> line, col |-> col])]
Panic(s) == [s EXCEPT !.panic = TRUE]
Put(f, k, v) == (k :> v) @@ f

E == evs[l]
A == E.args
Is(ev) == l >= 1 /\ l <= Len(evs) /\ ~st.panic /\ E.ev = ev /\ l' = l + 1 /\ UNCHANGED <<ri, evs, want, ji, job>>

EnterMain == Is("EnterMain") /\ st' = [st EXCEPT !.conds = EmptyFn]
ExitModuleHeader == Is("ExitModuleHeader")
                    /\ st' = [st EXCEPT !.modular = TRUE, !.hasExts = TRUE, !.exts = {}, !.module = IF A[1] = NilS THEN @ ELSE A[1]]
ExitModelHeader == Is("ExitModelHeader") /\ st' = [st EXCEPT !.schema = IF A[1] = NilS THEN @ ELSE A[1]]
EnterTypeDef == /\ Is("EnterTypeDef")
                /\ st' = IF A[1] = NilS THEN st
                         ELSE LET s1 == IF A[2] = "true" /\ ~st.modular THEN Err(st, "extend can only be used in a modular model", A[3], A[4]) ELSE st
                              IN [s1 EXCEPT !.cur = [name |-> A[1], rels |-> EmptyFn]]
ExitTypeDef == /\ Is("ExitTypeDef")
               /\ st' = IF st.cur = Nil \/ st.cur.name = "" THEN st
                        ELSE LET n == Cardinality(DOMAIN st.cur.rels)
                                 td == [name |-> st.cur.name, rels |-> st.cur.rels,
                                        meta |-> IF n = 0 THEN (IF st.modular THEN "norels" ELSE "nil") ELSE "full",
                                        module |-> IF st.modular THEN st.module ELSE ""]
                                 s1 == [st EXCEPT !.types = Append(@, td), !.cur = Nil]
                             IN IF A[2] = "true" /\ st.modular
                                THEN (IF st.cur.name \in st.exts THEN Err(s1, "'" \o st.cur.name \o "' is already extended in file.", A[3], A[4])
                                      ELSE [s1 EXCEPT !.exts = @ \cup {st.cur.name}])
                                ELSE s1
EnterRelDecl == Is("EnterRelDecl") /\ st' = [st EXCEPT !.rel = [rw |-> <<>>, op |-> "", restr |-> <<>>], !.stack = <<>>]
ExitRelDecl == /\ Is("ExitRelDecl")
               /\ st' = IF A[1] = NilS THEN st
                        ELSE IF st.rel = Nil THEN Panic(st)
                        ELSE LET def == ParseExpr(st.rel.rw, st.rel.op) IN
                             IF def = Nil THEN [st EXCEPT !.rel = Nil]
                             ELSE IF st.cur = Nil THEN Panic(st)
                             ELSE LET s1 == IF A[1] \in DOMAIN st.cur.rels THEN Err(st, "'" \o A[1] \o "' is already defined in '" \o st.cur.name \o "'", A[3], A[4]) ELSE st
                                  IN [s1 EXCEPT !.rel = Nil,
                                                !.cur.rels = Put(@, A[1], [rw |-> def, restr |-> st.rel.restr, module |-> IF st.modular /\ A[2] = "true" THEN st.module ELSE ""])]
EnterDirect == Is("EnterDirect") /\ st' = IF st.rel = Nil THEN Panic(st) ELSE [st EXCEPT !.rel.restr = <<>>]
ExitRestriction == /\ Is("ExitRestriction")
                   /\ st' = IF A[1] = NilS /\ Len(A) = 1 THEN st
                            ELSE IF st.rel = Nil THEN Panic(st)
                            ELSE [st EXCEPT !.rel.restr = Append(@, [t |-> IF A[1] = NilS THEN "" ELSE A[1],
                                                                     kind |-> IF A[3] = "true" THEN "wild" ELSE IF A[2] # NilS /\ A[2] # "" THEN "uset" ELSE "type",
                                                                     rel |-> IF A[3] = "true" \/ A[2] = NilS THEN "" ELSE A[2],
                                                                     cond |-> IF A[4] = NilS THEN "" ELSE A[4]])]
ExitDirect == Is("ExitDirect") /\ st' = IF st.rel = Nil THEN Panic(st) ELSE [st EXCEPT !.rel.rw = Append(@, [k |-> "this"])]
ExitRewrite == /\ Is("ExitRewrite")
               /\ st' = IF st.rel = Nil THEN Panic(st)
                        ELSE [st EXCEPT !.rel.rw = Append(@, IF (IF Len(A) >= 3 THEN A[3] = "false" ELSE A[2] = "") THEN [k |-> "cu", rel |-> A[1]] ELSE [k |-> "ttu", rel |-> A[1], ts |-> A[2]])]
\* (ExitRelationRecurse and ExitRelationRecurseNoDirect return before the hook when there is no current relation: no event then)
ExitRecurse == /\ Is("ExitRecurse") /\ st.rel # Nil
               /\ LET d == ParseExpr(st.rel.rw, st.rel.op) IN st' = IF d # Nil THEN [st EXCEPT !.rel.rw = <<d>>] ELSE st
EnterRecurseND == /\ Is("EnterRecurseND")
                  /\ st' = IF st.rel = Nil THEN Panic(st)
                           ELSE [st EXCEPT !.stack = Append(@, [rw |-> st.rel.rw, op |-> st.rel.op]), !.rel.rw = <<>>]
ExitRecurseND == /\ Is("ExitRecurseND") /\ st.rel # Nil
                 /\ st' = IF Len(st.stack) = 0 THEN Panic(st)
                          ELSE LET d == ParseExpr(st.rel.rw, st.rel.op)
                                   top == st.stack[Len(st.stack)]
                                   s1 == [st EXCEPT !.stack = SubSeq(@, 1, Len(@) - 1)]
                               IN IF d # Nil THEN [s1 EXCEPT !.rel.op = top.op, !.rel.rw = Append(top.rw, d)] ELSE s1
\* EnterRelationDefPartials sets the operator from the OR / AND / BUT_NOT tokens of the partials; the hook logs the value it holds afterwards
EnterPartials == Is("EnterPartials") /\ st' = IF st.rel = Nil THEN Panic(st) ELSE [st EXCEPT !.rel.op = A[1]]
EnterConditions == Is("EnterConditions") /\ st' = [st EXCEPT !.conds = EmptyFn]
EnterCondition == /\ Is("EnterCondition")
                  /\ st' = IF A[1] = NilS THEN st
                           ELSE LET s1 == IF A[1] \in DOMAIN st.conds THEN Err(st, "condition '" \o A[1] \o "' is already defined in the model", A[2], A[3]) ELSE st
                                IN [s1 EXCEPT !.cond = [name |-> A[1], expr |-> "", params |-> EmptyFn, hasmeta |-> st.modular, module |-> IF st.modular THEN st.module ELSE ""]]
ExitConditionParameter ==
  /\ Is("ExitConditionParameter")
  /\ st' = IF A[1] = NilS /\ Len(A) = 1 THEN st
           ELSE LET dup == st.cond # Nil /\ A[1] \in DOMAIN st.cond.params
                    s1 == IF dup THEN Err(st, "parameter '" \o A[1] \o "' is already defined in the condition '" \o st.cond.name \o "'", A[5], A[6])
                          ELSE IF st.cond = Nil /\ FALSE THEN st ELSE st
                    ty == IF A[3] # NilS THEN TypeNameOf(A[3]) ELSE TypeNameOf(A[2])
                    elem == IF A[3] # NilS /\ A[4] # NilS THEN TypeNameOf(A[4]) ELSE ""
                IN IF st.cond = Nil THEN Panic(s1) ELSE [s1 EXCEPT !.cond.params = Put(@, A[1], [ty |-> ty, elem |-> elem])]
ExitConditionExpression == Is("ExitConditionExpression") /\ st' = IF st.cond = Nil THEN Panic(st) ELSE [st EXCEPT !.cond.expr = TrimRightNL(A[1])]
ExitCondition == Is("ExitCondition") /\ st' = IF st.cond = Nil THEN st ELSE [st EXCEPT !.conds = Put(@, st.cond.name, st.cond), !.cond = Nil]

(***************************************************************************)
(* runs                                                                    *)
(***************************************************************************)
\* "mc": a job [doc, viol, vsite] of the layout universe; want = the document (its Ideal model is ModelOf)
JobDoc(j) == LET D0 == DocAt(j.doc) N == Names(j.doc % 3) IN IF j.viol = 0 THEN [viol |-> "", doc |-> D0] ELSE Violate(D0, j.viol, j.vsite, N)
DInit == ri \in 1..NumRuns /\ evs = <<>> /\ l = 0 /\ st = InitSt /\ want = <<>> /\ ji = 0 /\ job = <<>>
DLoad == /\ l = 0 /\ l' = 1 /\ st' = st /\ ri' = ri /\ UNCHANGED <<ji, job>>
        /\ IF Mode = "trace" THEN evs' = Traces[ri].events /\ want' = <<>>
           ELSE LET V == JobDoc(DocJobAt(ri)) IN evs' = DocEv(V.doc) /\ want' = V
Step == EnterMain \/ ExitModuleHeader \/ ExitModelHeader \/ EnterTypeDef \/ ExitTypeDef \/ EnterRelDecl \/ ExitRelDecl \/ EnterDirect \/ ExitRestriction
        \/ ExitDirect \/ ExitRewrite \/ ExitRecurse \/ EnterRecurseND \/ ExitRecurseND \/ EnterPartials \/ EnterConditions \/ EnterCondition
        \/ ExitConditionParameter \/ ExitConditionExpression \/ ExitCondition
DNext == DLoad \/ Step
DSpec == DInit /\ [][DNext]_dvars
Done == l = Len(evs) + 1

(***************************************************************************)
(* the model the state denotes                                             *)
(***************************************************************************)
RelSet(rels) == { [name |-> n, rw |-> rels[n].rw, restr |-> rels[n].restr, module |-> rels[n].module] : n \in DOMAIN rels }
CondSet(cs) == { [name |-> cs[n].name, expr |-> cs[n].expr, hasmeta |-> cs[n].hasmeta, module |-> cs[n].module,
                  params |-> { [name |-> p, ty |-> cs[n].params[p].ty, elem |-> cs[n].params[p].elem] : p \in DOMAIN cs[n].params }] : n \in DOMAIN cs }

(***************************************************************************)
(* "trace": validation of what the real listener did                       *)
(***************************************************************************)
TR == Traces[ri]
Card(f) == Cardinality(DOMAIN f)
B2I(b) == IF b THEN 1 ELSE 0
ProjI == << Len(st.types), B2I(st.cur # Nil), IF st.cur = Nil THEN -1 ELSE Card(st.cur.rels), Card(st.conds), B2I(st.cond # Nil),
            IF st.cond = Nil THEN -1 ELSE Card(st.cond.params), IF st.hasExts THEN Cardinality(st.exts) ELSE -1, B2I(st.rel # Nil),
            IF st.rel = Nil THEN -1 ELSE Len(st.rel.rw), Len(st.stack), IF st.rel = Nil THEN -1 ELSE Len(st.rel.restr), B2I(st.modular) >>
ProjS == << IF st.cur = Nil THEN "" ELSE st.cur.name, IF st.cond = Nil THEN "" ELSE st.cond.name, st.module, IF st.rel = Nil THEN "" ELSE st.rel.op, st.schema >>
PostStateOK == (Mode = "trace" /\ l > 1 /\ ~st.panic) => /\ evs[l - 1].i = ProjI /\ evs[l - 1].s = ProjS
NotStuck == (l >= 1 /\ ~Done /\ ~st.panic) => ENABLED Step
\* the recording ends where the automaton says the Go code panics, and only there
PanicOK == Mode = "trace" /\ l >= 1 => /\ (st.panic => TR.panic # "" /\ Done)
                                       /\ (Done /\ ~st.panic => TR.panic = "")
ErrOf(e) == [msg |-> e.msg, line |-> ToString(e.line), col |-> ToString(e.col)]
AtEnd == Mode = "trace" /\ l >= 1 /\ Done /\ ~st.panic
ResultTypesOK ==
  AtEnd => LET m == TR.model IN
           /\ m.schema = st.schema
           /\ Len(m.types) = Len(st.types)
           /\ \A i \in 1..Len(m.types) : /\ m.types[i].name = st.types[i].name /\ m.types[i].meta = st.types[i].meta /\ m.types[i].module = st.types[i].module
                                         /\ Len(m.types[i].rels) = Card(st.types[i].rels)
                                         /\ Range(m.types[i].rels) = RelSet(st.types[i].rels)
ResultCondsOK ==
  AtEnd => LET m == TR.model IN
           /\ Len(m.conds) = Card(st.conds)
           /\ { [c EXCEPT !.params = Range(c.params)] : c \in Range(m.conds) } = CondSet(st.conds)
ResultExtsOK == AtEnd => Range(TR.exts) = st.exts /\ Len(TR.exts) = Cardinality(st.exts)
\* listener errors are raised during the walk, i.e. after every syntax error of the parse
ResultErrsOK ==
  AtEnd => LET k == Len(st.errs) n == Len(TR.errs) IN n >= k /\ [i \in 1..k |-> ErrOf(TR.errs[n - k + i])] = st.errs

(***************************************************************************)
(* "trace", valid documents only: the walk of the real parser is the walk  *)
(* the grammar transcription predicts (positions are layout, expression    *)
(* text is compared modulo whitespace)                                     *)
(***************************************************************************)
RECURSIVE Squeeze(_)
Squeeze(s) == IF Len(s) = 0 THEN ""
              ELSE LET c == SubSeq(s, 1, 1) r == Squeeze(SubSeq(s, 2, Len(s))) IN IF c \in {" ", "\n", "\t", "\r"} THEN r ELSE c \o r
NormEv(e) ==
  LET q(a, ix) == [i \in 1..Len(a) |-> IF i \in ix THEN "?" ELSE a[i]]
  IN CASE e.ev \in {"EnterTypeDef", "ExitTypeDef", "ExitRelDecl"} -> Ev(e.ev, q(e.args, {3, 4}))
       [] e.ev = "EnterCondition" -> Ev(e.ev, q(e.args, {2, 3}))
       [] e.ev = "ExitConditionParameter" -> Ev(e.ev, q(e.args, {5, 6}))
       [] e.ev = "ExitConditionExpression" -> Ev(e.ev, <<Squeeze(e.args[1])>>)
       [] OTHER -> Ev(e.ev, e.args)
SrcDoc(src) == CASE src[1] = "doc" -> DocAt(src[2]) [] src[1] = "kw" -> KwDoc(src[2], src[3]) [] src[1] = "wide" -> WideDoc [] src[1] = "dot" -> DotDoc(src[2]) [] src[1] = "special" -> SpecialDoc(src[2])
WalkOK == (Mode = "trace" /\ l >= 1 /\ Done /\ TR.src[1] # "none") =>
            LET want_evs == DocEv(SrcDoc(TR.src)) IN
            /\ Len(evs) = Len(want_evs)
            /\ \A i \in 1..Len(evs) : NormEv(evs[i]) = NormEv(want_evs[i])

(***************************************************************************)
(* "mc": Impl refines Ideal on the document universe                       *)
(***************************************************************************)
Ideal == ModelOf(want.doc)
NeverPanics == Mode = "mc" => ~st.panic
TypeOK == /\ st.cur # Nil => st.rel = Nil \/ TRUE
          /\ st.cond # Nil => st.cur = Nil
          /\ Len(st.stack) > 0 => st.rel # Nil
ValidDocYieldsModelWritten ==
  (Mode = "mc" /\ l >= 1 /\ Done /\ want.viol = "") =>
    LET D == want.doc
        I == Ideal
        modular == D.header = "module"
    IN /\ st.errs = <<>> /\ st.cur = Nil /\ st.rel = Nil /\ st.cond = Nil /\ st.stack = <<>>
       /\ st.schema = I.schema
       /\ Len(st.types) = Len(I.types)
       /\ \A i \in 1..Len(I.types) :
            /\ st.types[i].name = I.types[i].name
            /\ { [name |-> r.name, rw |-> r.rw, restr |-> r.restr] : r \in RelSet(st.types[i].rels) } = Range(I.types[i].rels)
            /\ Card(st.types[i].rels) = Len(I.types[i].rels)
            \* attribution: a module file's declarations carry the module of the header; relations only when added by an extension
            /\ st.types[i].module = (IF modular THEN D.module ELSE "")
            /\ \A r \in RelSet(st.types[i].rels) : r.module = (IF modular /\ I.types[i].ext THEN D.module ELSE "")
       /\ { [name |-> c.name, expr |-> c.expr, params |-> c.params] : c \in CondSet(st.conds) }
            = { [name |-> c.name, expr |-> c.expr, params |-> Range(c.params)] : c \in Range(I.conds) }
       /\ Card(st.conds) = Len(I.conds)
       /\ \A c \in CondSet(st.conds) : c.module = (IF modular THEN D.module ELSE "") /\ c.hasmeta = modular
       /\ st.exts = { D.types[i].name : i \in { j \in 1..Len(D.types) : modular /\ D.types[j].ext } }
ListenerViolations == {"duplicate relation", "duplicate condition", "duplicate parameter", "extend in model", "type extended twice"}
ViolationRaisesItsError ==
  (Mode = "mc" /\ l >= 1 /\ Done /\ want.viol \in ListenerViolations) =>
    LET has(m, sub) == \E i \in 1..(Len(m) - Len(sub) + 1) : SubSeq(m, i, i + Len(sub) - 1) = sub
        some(sub) == \E j \in 1..Len(st.errs) : has(st.errs[j].msg, sub)
    IN CASE want.viol = "duplicate relation" -> some("' is already defined in '")
         [] want.viol = "duplicate condition" -> some("is already defined in the model")
         [] want.viol = "duplicate parameter" -> some("is already defined in the condition")
         [] want.viol = "extend in model" -> some("extend can only be used in a modular model")
         [] want.viol = "type extended twice" -> some("is already extended in file.")
=============================================================================
