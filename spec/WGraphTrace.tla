----------------------------- MODULE WGraphTrace -----------------------------
(***************************************************************************)
(* Trace validation for WGraph: every line of wg_traces.ndjson is one run  *)
(* of the real builder - the abstract model, the DFS roots in the order Go *)
(* map iteration actually produced them (logged by the verif hook).        *)
(* Each trace is an initial state; the logged root order resolves the      *)
(* schedule nondeterminism of the Impl layer, so validation is linear.     *)
(***************************************************************************)
EXTENDS WGraph
TraceInputs == ndJsonDeserialize("wg_traces.ndjson")
=============================================================================
