-------------------------------- MODULE DslMC --------------------------------
(***************************************************************************)
(* Bounded universes for the printer half of Dsl.tla:                      *)
(*  Trees*  every rewrite tree up to a depth/width bound, the direct       *)
(*          assignment anywhere, any multiplicity, single-child operators  *)
(*          (C02), wrapped into a model with rotating restriction lists    *)
(*  Attr*   models whose types, relations and conditions carry every       *)
(*          combination of module / file attribution (C14)                 *)
(***************************************************************************)
EXTENDS Dsl

CONSTANTS W1,     \* maximal operand count of depth-1 operators
          W2,     \* maximal operand count of depth-2 operators
          Deep    \* TRUE: depth 2 over the full depth-1 set, FALSE: over the depth-1 set with at most two operands

VARIABLE st

LeafSet == { [k |-> "this"], [k |-> "cu", rel |-> "a"], [k |-> "ttu", rel |-> "b", ts |-> "p"] }
SeqsUpTo(S, n) == UNION { [1..k -> S] : k \in 1..n }
OpTrees(S, w) == { [k |-> op, ch |-> s] : op \in {"union", "inter"}, s \in SeqsUpTo(S, w) } \cup { [k |-> "diff", ch |-> <<a, b>>] : a \in S, b \in S }
T1(w) == LeafSet \cup OpTrees(LeafSet, w)
\* spines three and four operators deep: the leaf L (the direct assignment or a computed userset) sits at the bottom of a chain of
\* operators, every one of which holds the chain as its first (side = 1) or its second (side = 2) operand; the other operand is a leaf.
\* (`((([user] or a) and b) but not c)` is expressible however deep it is; one step to the right anywhere on the way and it is not.)
Ops3 == {"union", "inter", "diff"}
Pair(op, side, sub, other) == [k |-> op, ch |-> IF side = 1 THEN <<sub, other>> ELSE <<other, sub>>]
CU == [k |-> "cu", rel |-> "a"]
Spine3 == { Pair(o1, s1, Pair(o2, s2, Pair(o3, s3, L, CU), CU), [k |-> "ttu", rel |-> "b", ts |-> "p"]) :
              o1 \in Ops3, o2 \in Ops3, o3 \in Ops3, s1 \in 1..2, s2 \in 1..2, s3 \in 1..2, L \in {[k |-> "this"], CU} }
Spine4 == { Pair(o0, s0, t, CU) : o0 \in Ops3, s0 \in 1..2, t \in { x \in Spine3 : x.k # "inter" /\ x.ch[2].k = "ttu" } }
TreeSet == T1(W1) \cup OpTrees(IF Deep THEN T1(W1) ELSE T1(2), W2) \cup Spine3 \cup (IF Deep THEN Spine4 ELSE { x \in Spine4 : x.ch[1].k # "cu" /\ x.k = "diff" })

Ty(t) == [t |-> t, kind |-> "type", rel |-> "", cond |-> ""]
Wi(t) == [t |-> t, kind |-> "wild", rel |-> "", cond |-> ""]
Us(t, r) == [t |-> t, kind |-> "uset", rel |-> r, cond |-> ""]
WithC(x, c) == [x EXCEPT !.cond = c]
RestrVariant(v) == CASE v = 0 -> <<Ty("user")>>
                     [] v = 1 -> <<Ty("user"), Wi("user"), WithC(Us("doc", "a"), "c1"), WithC(Wi("user"), "c1")>>
                     [] v = 2 -> <<WithC(Ty("user"), "c1"), Us("doc", "b")>>
                     \* the same restriction several times, adjacent and apart: a list, not a set - nothing is merged or dropped
                     [] v = 3 -> <<Ty("user"), Ty("user"), WithC(Us("doc", "a"), "c1"), WithC(Us("doc", "a"), "c1"), Wi("user"), Ty("user"), Wi("user"), Wi("user")>>
PlainRel(n, rw, restr) == [name |-> n, module |-> "", file |-> "", rw |-> rw, restr |-> restr]
\* (the expression of variant 2 spans two lines, the continuation line indented by four blanks: the DSL carries it verbatim)
C1 == [name |-> "c1", module |-> "", file |-> "",
       params |-> <<[name |-> "x", ty |-> "TYPE_NAME_INT", elem |-> ""], [name |-> "ys", ty |-> "TYPE_NAME_LIST", elem |-> "TYPE_NAME_STRING"],
                    [name |-> "m", ty |-> "TYPE_NAME_MAP", elem |-> "TYPE_NAME_BOOL"],
                    \* a second list and a second map with other element types, and every scalar type
                    [name |-> "zs", ty |-> "TYPE_NAME_LIST", elem |-> "TYPE_NAME_INT"], [name |-> "n", ty |-> "TYPE_NAME_MAP", elem |-> "TYPE_NAME_UINT"],
                    [name |-> "d", ty |-> "TYPE_NAME_DOUBLE", elem |-> ""], [name |-> "t", ty |-> "TYPE_NAME_DURATION", elem |-> ""],
                    [name |-> "ip", ty |-> "TYPE_NAME_IPADDRESS", elem |-> ""], [name |-> "ok", ty |-> "TYPE_NAME_BOOL", elem |-> ""],
                    [name |-> "s", ty |-> "TYPE_NAME_STRING", elem |-> ""], [name |-> "at", ty |-> "TYPE_NAME_TIMESTAMP", elem |-> ""],
                    [name |-> "u", ty |-> "TYPE_NAME_UINT", elem |-> ""]>>,
       expr |-> "x < 10 && ys[0] == \"a\" && x % 2 == 0 && s != \"100%\""]
WrapTree(t, v) ==
  [schema |-> "1.1",
   types |-> << [name |-> "user", module |-> "", file |-> "", rels |-> <<>>],
                [name |-> "doc", module |-> "", file |-> "",
                 rels |-> << PlainRel("a", [k |-> "this"], <<Ty("user")>>), PlainRel("b", [k |-> "this"], <<Ty("user")>>),
                             PlainRel("p", [k |-> "this"], <<Ty("doc")>>), PlainRel("x", t, RestrVariant(v)) >>] >>,
   conds |-> IF v = 0 THEN <<>> ELSE IF v \in {1, 3} THEN <<C1>> ELSE <<[C1 EXCEPT !.expr = "x < 10 &&\n    ys[0] == \"a\" && x % 3 == 1"]>>]

\* a short deterministic key of a tree (used as record id and to rotate the restriction variants)
RECURSIVE Key(_)
RECURSIVE KeyCh(_, _)
Key(t) == CASE t.k = "this" -> "T" [] t.k = "cu" -> "c" [] t.k = "ttu" -> "f"
            [] t.k = "union" -> "u(" \o KeyCh(t.ch, 1) \o ")" [] t.k = "inter" -> "i(" \o KeyCh(t.ch, 1) \o ")" [] t.k = "diff" -> "d(" \o KeyCh(t.ch, 1) \o ")"
KeyCh(ch, i) == IF i > Len(ch) THEN "" ELSE Key(ch[i]) \o KeyCh(ch, i + 1)

TreeRec(t) == LET v == Len(Key(t)) % 4
                  M == WrapTree(t, v)
              IN [rec |-> "tree", id |-> Key(t), m |-> M, expressible |-> Expressible(t), accepts |-> PrinterAccepts(t),
                  print |-> IF PrinterAccepts(t) THEN PrintM(M, FALSE) ELSE "", norm |-> IF Expressible(t) THEN NormM(M) ELSE <<>>,
                  assignable |-> CountThis(t) > 0]
\* models the DSL grammar has no words for although their rewrites nest well: a condition parameter of type `any` (alone, or as the
\* element type of a list / a map). The printer writes `any`; the parameter-type rule of the grammar does not know it (finding D20).
AnyParams == << <<[name |-> "v", ty |-> "TYPE_NAME_ANY", elem |-> ""]>>,
                <<[name |-> "x", ty |-> "TYPE_NAME_INT", elem |-> ""], [name |-> "vs", ty |-> "TYPE_NAME_LIST", elem |-> "TYPE_NAME_ANY"]>>,
                <<[name |-> "vm", ty |-> "TYPE_NAME_MAP", elem |-> "TYPE_NAME_ANY"], [name |-> "x", ty |-> "TYPE_NAME_INT", elem |-> ""]>> >>
AnyRec(i) == LET t == [k |-> "this"]
                 M == [WrapTree(t, 1) EXCEPT !.conds = <<[C1 EXCEPT !.params = AnyParams[i], !.expr = "x < 10"]>>]
             IN [rec |-> "tree", id |-> "any" \o ToString(i), m |-> M, expressible |-> TRUE, accepts |-> TRUE, print |-> PrintM(M, FALSE), norm |-> NormM(M), assignable |-> TRUE]
TreesInit == st \in { [ph |-> "todo", v |-> t] : t \in TreeSet } \cup { [ph |-> "todoany", v |-> [k |-> "any", i |-> i]] : i \in 1..Len(AnyParams) }
TreesNext == \/ st.ph = "todo" /\ st' = [st EXCEPT !.ph = "done"] /\ PrintT(ToJson(TreeRec(st.v)))
             \/ st.ph = "todoany" /\ st' = [st EXCEPT !.ph = "doneany"] /\ PrintT(ToJson(AnyRec(st.v.i)))
\* evaluated on the states the workers produce, not on the initial states (those are computed on one thread)
TreesOK == st.ph = "done" => ExpressibleIffPrintable(st.v) /\ AssignableIffBracket(st.v)

(***************************************************************************)
(* Attribution universe (C14)                                              *)
(***************************************************************************)
CONSTANTS TypeAttrs, RelAttrs, CondAttrs      \* sets of indices into AttrPool
AttrPool == << <<"", "">>, <<"m1", "a.fga">>, <<"m2", "a.fga">>, <<"m1", "b c.fga">>, <<"m2", "">>, <<"", "d#e.fga">>, <<"m1", "z, file: q.fga">>,
              <<"m2", "dir\ncore.fga">>,
              <<"m1 #x", "wiki #2.fga">> >>      \* a file name with a line break (reachable through JSON / protobuf only)
At(x, i) == [x EXCEPT !.module = AttrPool[i][1], !.file = AttrPool[i][2]]
AttrModel(c) ==    \* c = [t1, t2, r1, r2, r3, c1, c2] indices into AttrPool
  [schema |-> "1.2",
   types |-> << At([name |-> "zeta", module |-> "", file |-> "",
                    rels |-> << At(PlainRel("c", [k |-> "this"], <<Ty("alpha")>>), c.r1),
                                At(PlainRel("a", [k |-> "union", ch |-> <<[k |-> "cu", rel |-> "c"], [k |-> "this"]>>], <<Ty("alpha"), WithC(Wi("alpha"), "k2")>>), c.r2),
                                At(PlainRel("b", [k |-> "ttu", rel |-> "c", ts |-> "a"], <<>>), c.r3) >>], c.t1),
                At([name |-> "alpha", module |-> "", file |-> "", rels |-> <<>>], c.t2) >>
            \o (IF c.c1 # c.c2 \/ c.r1 # c.r3 THEN <<>> ELSE <<
                \* (in a slice of the universe only: it is expensive to print) a type with 14 relations, two of them contributed by an extension (sorting more than 12 elements takes another code path in Go)
                At([name |-> "big", module |-> "", file |-> "",
                    rels |-> [i \in 1..18 |-> LET nm == <<"owner", "guest", "commenter", "viewer", "editor", "approver", "auditor", "manager", "reader", "writer", "admin", "member", "notary", "counsel",
                                                          "owner2", "owner10", "Owner", "owner_">>[i]    \* (names that a sort by anything but the plain name misplaces)
                                              IN At(PlainRel(nm, [k |-> "this"], <<Ty("alpha")>>), IF i > 12 THEN c.r2 ELSE IF i % 2 = 0 THEN c.r1 ELSE c.t2)]
                            \* ... and three relations without a direct assignment and without attribution: API clients write no metadata entry for such relations
                            \o << PlainRel("zcomp", [k |-> "cu", rel |-> "owner"], <<>>), PlainRel("Acomp", [k |-> "cu", rel |-> "guest"], <<>>),
                                  PlainRel("comp2", [k |-> "ttu", rel |-> "owner", ts |-> "member"], <<>>) >>], c.t1) >>),
   conds |-> << At([name |-> "k2", module |-> "", file |-> "", params |-> <<[name |-> "b", ty |-> "TYPE_NAME_STRING", elem |-> ""], [name |-> "a", ty |-> "TYPE_NAME_TIMESTAMP", elem |-> ""], [name |-> "userId", ty |-> "TYPE_NAME_STRING", elem |-> ""],
                                                                              [name |-> "Zone", ty |-> "TYPE_NAME_INT", elem |-> ""], [name |-> "userid", ty |-> "TYPE_NAME_BOOL", elem |-> ""], [name |-> "lim", ty |-> "TYPE_NAME_INT", elem |-> ""], [name |-> "lim2", ty |-> "TYPE_NAME_INT", elem |-> ""], [name |-> "lim10", ty |-> "TYPE_NAME_UINT", elem |-> ""], [name |-> "user_ip", ty |-> "TYPE_NAME_IPADDRESS", elem |-> ""]>>,
                    expr |-> "a > timestamp(b) &&\n    Zone % 3 < 2"], c.c1),
                At([name |-> "k1", module |-> "", file |-> "", params |-> <<[name |-> "ip", ty |-> "TYPE_NAME_IPADDRESS", elem |-> ""]>>, expr |-> "ip.in_cidr(\"10.0.0.0/8\")"], c.c2) >>]
AttrChoices == [t1 : TypeAttrs, t2 : TypeAttrs, r1 : RelAttrs, r2 : RelAttrs, r3 : RelAttrs, c1 : CondAttrs, c2 : CondAttrs]
AttrId(c) == ToString(c.t1) \o ToString(c.t2) \o ToString(c.r1) \o ToString(c.r2) \o ToString(c.r3) \o ToString(c.c1) \o ToString(c.c2)
AttrRec(c) == LET M == AttrModel(c) IN
  [rec |-> "attr", id |-> "a" \o AttrId(c), m |-> M, plain |-> PrintM(M, FALSE), src |-> PrintM(M, TRUE), norm |-> NormM(M), modular |-> IsModular(M)]
AttrInit == st \in { [ph |-> "todo", v |-> c] : c \in AttrChoices }
AttrNext == st.ph = "todo" /\ st' = [st EXCEPT !.ph = "done"] /\ PrintT(ToJson(AttrRec(st.v)))
AttrOK == st.ph = "done" => SourceCommentsInert(AttrModel(st.v))
=============================================================================
