-------------------------------- MODULE Purity --------------------------------
(***************************************************************************)
(* C13: the public functions of openfga/language are pure - inputs         *)
(* untouched, results independent of the call history, safe to call from   *)
(* many goroutines.                                                        *)
(*                                                                         *)
(* Every operation has a DECLARED FOOTPRINT: it reads its argument object, *)
(* writes nothing, and its result is a function of the argument.           *)
(*  Gen*    enumerates call histories (sequences of compatible             *)
(*          (operation, object) pairs) and concurrency scenarios (which    *)
(*          calls overlap, on a shared or on private copies of an object)  *)
(*          for the harness to execute.                                    *)
(*  Trace*  validates what the harness recorded: events Begin(p, call),    *)
(*          Write(p, obj) - emitted only when the harness OBSERVED a write *)
(*          (deep snapshot difference after the call, or a race-detector   *)
(*          report naming the call) - and End(p, result).  With the        *)
(*          declared footprint no Write is ever enabled, so an observed    *)
(*          write shows up as InputsUnchanged / NoDataRace failing.        *)
(***************************************************************************)
EXTENDS Integers, Sequences, FiniteSets, TLC, Json

CONSTANTS Pairs,       \* set of compatible calls <<operation, object>>
          MaxLen,      \* Gen: maximal history length
          MaxPar       \* Gen: maximal number of overlapping calls

VARIABLE st

(***************************************************************************)
(* generation                                                              *)
(***************************************************************************)
HistInit == st = <<>>
HistNext == /\ Len(st) < MaxLen
            /\ \E c \in Pairs : st' = Append(st, c)
            /\ PrintT(ToJson([rec |-> "history", calls |-> st']))
\* a scenario: a set of overlapping calls (as a sequence without order meaning) + sharing mode
ScenInit == st = [calls |-> <<>>, shared |-> TRUE, done |-> FALSE]
ScenNext == /\ ~st.done
            /\ \/ /\ Len(st.calls) < MaxPar
                  /\ \E c \in Pairs : (Len(st.calls) = 0 \/ TRUE) /\ st' = [st EXCEPT !.calls = Append(@, c)]
               \/ /\ Len(st.calls) >= 2
                  /\ \E sh \in BOOLEAN : st' = [st EXCEPT !.shared = sh, !.done = TRUE]
                                          /\ PrintT(ToJson([rec |-> "scenario", calls |-> st.calls, shared |-> sh]))

(***************************************************************************)
(* trace validation                                                        *)
(***************************************************************************)
Traces == ndJsonDeserialize("purity_traces.ndjson")
\* trace state: position l in trace ti; ver[obj] bumped by every observed write; inflight calls; results seen per call
TraceInit == st \in { [ti |-> i, l |-> 1, ver |-> [o \in {} |-> 0], inflight |-> {}, seenres |-> [c \in {} |-> ""], bad |-> ""] : i \in 1..Len(Traces) }
Ev == Traces[st.ti].events[st.l]
Bump(f, o) == [x \in DOMAIN f \cup {o} |-> IF x = o THEN (IF o \in DOMAIN f THEN f[o] + 1 ELSE 1) ELSE f[x]]
VerOf(f, o) == IF o \in DOMAIN f THEN f[o] ELSE 0
TraceNext ==
  /\ st.l <= Len(Traces[st.ti].events)
  /\ LET e == Ev IN
     CASE e.ev = "begin" -> st' = [st EXCEPT !.l = @ + 1, !.inflight = @ \cup {[p |-> e.p, op |-> e.op, obj |-> e.obj, vin |-> VerOf(st.ver, e.obj)]}]
       [] e.ev = "mutated" -> st' = [st EXCEPT !.l = @ + 1, !.bad = "the value " \o e.op \o "(" \o e.obj \o ") returned was written to by a later call"]
       [] e.ev = "write" -> st' = [st EXCEPT !.l = @ + 1, !.ver = Bump(@, e.obj)]                     \* not in any declared footprint: only ever logged when observed
       [] e.ev = "end" ->
            LET c == CHOOSE x \in st.inflight : x.p = e.p
                key == <<c.op, c.obj>>
            IN st' = [st EXCEPT !.l = @ + 1, !.inflight = @ \ {c},
                                !.bad = IF VerOf(st.ver, c.obj) # c.vin THEN "input " \o c.obj \o " written during " \o c.op
                                        ELSE IF key \in DOMAIN st.seenres /\ st.seenres[key] # e.res THEN "result of " \o c.op \o "(" \o c.obj \o ") depends on history"
                                        ELSE @,
                                !.seenres = [k \in DOMAIN @ \cup {key} |-> IF k \in DOMAIN @ THEN @[k] ELSE e.res]]
\* the three clauses of C13 as invariants over recorded executions
InputsUnchanged == \A c \in st.inflight : VerOf(st.ver, c.obj) = c.vin
ResultDependsOnlyOnArgs == st.bad = ""
\* a write to an object while another process has a call in flight on it
NoDataRace == ~(st.l > 1 /\ st.l - 1 <= Len(Traces[st.ti].events) /\ Traces[st.ti].events[st.l - 1].ev = "write"
                /\ \E c \in st.inflight : c.obj = Traces[st.ti].events[st.l - 1].obj /\ c.p # Traces[st.ti].events[st.l - 1].p)
=============================================================================
