------------------------------ MODULE DslLayout ------------------------------
(***************************************************************************)
(* Grammar-driven rendering of DSL documents (C03, C09, C16, feeds C01).   *)
(*                                                                         *)
(* Tokens(D) transcribes OpenFGAParser.g4 rule by rule into a sequence of  *)
(* [lex, sep, tag]: the lexeme, the KIND of separator the grammar permits  *)
(* after it, and a tag naming declarations (for error positions).          *)
(* A layout = a global style (what every separator kind is rendered as)    *)
(* plus local overrides at single token positions.  Render yields the text *)
(* and the zero-based (line, column) of every lexeme.                      *)
(*                                                                         *)
(* The layout space is the feature list of C03 intersected with what the   *)
(* combined lexer + parser + comment pre-pass really admit (DESIGN 3.2):   *)
(* parameter lists are single-line (lexer mode CONDITION_DEF has no        *)
(* NEWLINE), trailing blanks are spaces, a trailing comment needs the      *)
(* blank before '#', comment lines are indented with spaces.               *)
(*                                                                         *)
(* A document D is more liberal than a model: duplicate declarations,      *)
(* misplaced direct assignments, both / no header ... can be written, so   *)
(* that the violation catalogue of C09 is a set of functions D -> D'.      *)
(*   D = [header : "model" | "module" | "both" | "none", schema, module,   *)
(*        types : << [name, ext : BOOLEAN, rels : << [name, rw, restr] >>] >>, *)
(*        conds : << [name, params : << [name, ty] >>, expr] >>]           *)
(*   rw: this | cu | ttu | union | inter | diff trees, plus                *)
(*       [k |-> "par", ch |-> <<t>>]  redundant parentheses around t       *)
(*       [k |-> "mixed", ch, ops]     operands joined by the given         *)
(*                                    operator lexemes (C09: mixing)       *)
(***************************************************************************)
EXTENDS Dsl

T(lex, sep) == <<[lex |-> lex, sep |-> sep, tag |-> <<>>]>>
TT(lex, sep, tag) == <<[lex |-> lex, sep |-> sep, tag |-> tag]>>
SetLast(ts, sep) == [ts EXCEPT ![Len(ts)].sep = sep]
OpLex(k) == CASE k = "union" -> "or" [] k = "inter" -> "and" [] k = "diff" -> "but not"

(***************************************************************************)
(* relationDef ... : separator kinds                                       *)
(*   WS1   exactly one WHITESPACE token (required)                         *)
(*   OWS   WHITESPACE?                                                     *)
(*   WSS   WHITESPACE*  (inside parentheses)                               *)
(*   RNL   NEWLINE? inside a restriction list (may carry a line break)     *)
(*   NONE  nothing may stand here                                          *)
(***************************************************************************)
RECURSIVE RestrToks(_, _)
RestrToks(restr, i) ==
  IF i > Len(restr) THEN <<>>
  ELSE LET x == restr[i]
           base == T(x.t, "NONE")
                   \o (IF x.kind = "wild" THEN T(":", "NONE") \o T("*", "NONE") ELSE <<>>)
                   \o (IF x.kind = "uset" THEN T("#", "NONE") \o T(x.rel, "NONE") ELSE <<>>)
                   \o (IF x.kind = "wildrel" THEN T(":", "NONE") \o T("*", "NONE") \o T("#", "NONE") \o T(x.rel, "NONE") ELSE <<>>)      \* C09
                   \o (IF x.kind = "relwild" THEN T("#", "NONE") \o T(x.rel, "NONE") \o T(":", "NONE") \o T("*", "NONE") ELSE <<>>)      \* C09
           withc == IF x.cond # "" THEN SetLast(base, "WS1") \o T("with", "WS1") \o T(x.cond, "NONE") ELSE base
       IN SetLast(withc, "RNL") \o (IF i < Len(restr) THEN T(",", "RNL") ELSE <<>>) \o RestrToks(restr, i + 1)
ThisToks(restr) == T("[", "RNL") \o RestrToks(restr, 1) \o T("]", "END")

RECURSIVE Expr(_, _)
RECURSIVE JoinOps(_, _, _, _)
Operand(c, restr) == IF c.k \in {"this", "cu", "ttu", "par"} THEN Expr(c, restr)
                     ELSE T("(", "WSS") \o SetLast(Expr(c, restr), "WSS") \o T(")", "END")
Expr(t, restr) ==
  CASE t.k = "this" -> ThisToks(restr)
    [] t.k = "cu" -> T(t.rel, "END")
    [] t.k = "ttu" -> T(t.rel, "WS1") \o T("from", "WS1") \o T(t.ts, "END")
    [] t.k = "par" -> T("(", "WSS") \o SetLast(Expr(t.ch[1], restr), "WSS") \o T(")", "END")
    [] t.k = "mixed" -> JoinOps(t.ch, t.ops, 1, restr)
    [] OTHER -> JoinOps(t.ch, [i \in 1..(Len(t.ch) - 1) |-> OpLex(t.k)], 1, restr)
JoinOps(ch, ops, i, restr) ==
  IF i = Len(ch) THEN Operand(ch[i], restr)
  ELSE SetLast(Operand(ch[i], restr), "WS1") \o T(ops[i], "WS1") \o JoinOps(ch, ops, i + 1, restr)

(***************************************************************************)
(* declarations: separator kinds                                           *)
(*   NL(d)  NEWLINE (required) followed by indentation of depth d          *)
(*   FIN    end of document                                                *)
(***************************************************************************)
RelToks(r, ti, ri) ==
  T("define", "WS1") \o TT(r.name, "OWS", <<"rel", ti, ri>>) \o T(":", "OWS") \o Expr(r.rw, r.restr)
RECURSIVE RelsToks(_, _, _)
RelsToks(rels, ti, i) == IF i > Len(rels) THEN <<>> ELSE SetLast(RelToks(rels[i], ti, i), IF i < Len(rels) THEN "NL2" ELSE "END") \o RelsToks(rels, ti, i + 1)
TypeToks(t, ti) ==
  (IF t.ext THEN T("extend", "WS1") ELSE <<>>) \o T("type", "WS1")
  \o (IF Len(t.rels) = 0 THEN TT(t.name, "END", <<"type", ti>>)
      ELSE TT(t.name, "NL1", <<"type", ti>>) \o T("relations", "NL2") \o RelsToks(t.rels, ti, 1))
RECURSIVE TypesToks(_, _)
TypesToks(ts, i) == IF i > Len(ts) THEN <<>> ELSE SetLast(TypeToks(ts[i], i), "NL0") \o TypesToks(ts, i + 1)

ParamTy(ty) == ty      \* written as is: "int", "list<string>", also "list" or "map<map<int>>" for C09
RECURSIVE ParamsToks(_, _, _)
ParamsToks(ps, ci, i) ==
  IF i > Len(ps) THEN <<>>
  ELSE TT(ps[i].name, "OWS", <<"param", ci, i>>) \o T(":", "OWS") \o T(ParamTy(ps[i].ty), "OWS")
       \o (IF i < Len(ps) THEN T(",", "OWS") ELSE <<>>) \o ParamsToks(ps, ci, i + 1)
CondToks(c, ci) ==
  T("condition", "WS1") \o TT(c.name, "OWS", <<"cond", ci>>) \o T("(", "OWS") \o ParamsToks(c.params, ci, 1) \o T(")", "OWS")
  \o T("{", "BNL") \o T(c.expr, "BNL") \o T("}", "END")
RECURSIVE CondsToks(_, _)
CondsToks(cs, i) == IF i > Len(cs) THEN <<>> ELSE SetLast(CondToks(cs[i], i), "NL0") \o CondsToks(cs, i + 1)

HeaderToks(D) ==
  (IF D.header \in {"model", "both"} THEN T("model", "NL1") \o T("schema", "WS1") \o T(D.schema, "NL0") ELSE <<>>)
  \o (IF D.header \in {"module", "both"} THEN T("module", "WS1") \o T(D.module, "NL0") ELSE <<>>)
Tokens(D) == LET body == HeaderToks(D) \o TypesToks(D.types, 1) \o CondsToks(D.conds, 1)
             IN T("", "LEAD") \o (IF Len(body) = 0 THEN <<>> ELSE SetLast(body, "FIN"))

(***************************************************************************)
(* styles                                                                  *)
(***************************************************************************)
StyleSpace == [ ws : {" ", "\t", "   "},            \* a required WHITESPACE token
                ows : {"", " "},                     \* an optional one
                eol : {"\n", "\r\n"},
                ind : {"  ", "\t", "", "      "},    \* indentation unit
                blank : {0, 1, 2},                   \* blank (whitespace-only) lines at every line break
                cmt : {0, 1},                        \* full-line comments (space-indented) at every line break
                trail : {"", " # t", "   ", " # see #12 # more", "\t", " \t "},         \* after the last lexeme of a line: trailing comment / trailing blanks
                multi : BOOLEAN,                     \* restriction lists over several lines
                lead : {"", "\n", "  \n\n", "# hdr\n", "  # a\n  # b\n"},     \* before the header
                fin : {"", "\n", "\n\n"} ]           \* after the last lexeme
BaseStyle == [ws |-> " ", ows |-> "", eol |-> "\n", ind |-> "  ", blank |-> 0, cmt |-> 0, trail |-> "", multi |-> FALSE, lead |-> "", fin |-> "\n"]

RECURSIVE Rep(_, _)
Rep(s, n) == IF n = 0 THEN "" ELSE s \o Rep(s, n - 1)
RECURSIVE CountLF(_, _)
CountLF(s, i) == IF i > Len(s) THEN 0 ELSE (IF SubSeq(s, i, i) = "\n" THEN 1 ELSE 0) + CountLF(s, i + 1)
RECURSIVE AfterLastLF(_, _)
AfterLastLF(s, i) == IF i = 0 THEN Len(s) ELSE IF SubSeq(s, i, i) = "\n" THEN Len(s) - i ELSE AfterLastLF(s, i - 1)
Scan(s) == LET n == CountLF(s, 1) IN [str |-> s, lines |-> n, col |-> IF n = 0 THEN -1 ELSE AfterLastLF(s, Len(s))]

\* a line break: [str, lines (how many line feeds), col (length of what follows the last line feed)]
\* optional style fields: cind = 0 puts the full-line comments in column 0 whatever the depth; pad = 1 makes each of them longer than
\* 64 KiB (a line length at which line-oriented readers with a fixed buffer give up)
RECURSIVE Dbl(_, _)
Dbl(s, n) == IF n = 0 THEN s ELSE Dbl(s \o s, n - 1)
Big == Dbl(" long comment", 13)                       \* 13 * 2^13 = 106,496 characters
CmtLine(st, depth) == (IF "cind" \in DOMAIN st /\ st.cind = 0 THEN "" ELSE Rep(" ", depth)) \o "# c" \o (IF "pad" \in DOMAIN st /\ st.pad = 1 THEN Big ELSE "") \o st.eol
Brk(st, depth) == [str |-> st.trail \o st.eol \o Rep("  " \o st.eol, st.blank) \o Rep(CmtLine(st, depth), st.cmt) \o Rep(st.ind, depth),
                   lines |-> 1 + st.blank + st.cmt, col |-> Len(Rep(st.ind, depth))]
Flat(s) == [str |-> s, lines |-> 0, col |-> -1]
HasTab(s) == \E i \in 1..Len(s) : SubSeq(s, i, i) = "\t"
Sep(st, kind) ==
  CASE kind = "NONE" -> Flat("") [] kind = "END" -> Flat("")
    [] kind = "WS1" -> Flat(st.ws)
    [] kind = "OWS" -> Flat(st.ows)
    [] kind = "WSS" -> Flat(st.ows)
    [] kind = "RNL" -> IF st.multi THEN Brk(st, 3) ELSE Flat(st.ows)
    [] kind = "BNL" -> IF st.multi THEN Brk([st EXCEPT !.trail = ""], 1) ELSE Flat(st.ows)     \* around a condition body
    [] kind = "NL0" -> LET b == Brk(st, 0) IN [b EXCEPT !.str = @ \o st.eol, !.lines = @ + 1]   \* between declarations: an empty line as the printer writes it
    [] kind = "NL1" -> Brk(st, 1)
    [] kind = "NL2" -> Brk(st, 2)
    [] kind = "LEAD" -> Scan(st.lead)                 \* may contain line breaks: counted
    \* the final line breaks follow the style's line end; a trailing TAB is part of a NEWLINE token (WS? line-end ...), so it needs one
    [] kind = "FIN" -> Scan((IF st.fin = "" /\ HasTab(st.trail) THEN "" ELSE st.trail) \o (CASE st.fin = "" -> "" [] st.fin = "\n" -> st.eol [] OTHER -> st.eol \o st.eol))
\* local alternatives for one separator of the given kind (C03: "one or two local overrides"); sequences: jobs address them by ordinal
Alts(kind) ==
  CASE kind = "WS1" -> <<" ", "\t", "  \t ">>
    [] kind = "OWS" -> <<"", " ", "\t", "   ">>
    [] kind = "WSS" -> <<"", " ", "  ", "\t">>
    [] kind = "RNL" -> <<"", " ", "\n      ", " \n\n   ", "\r\n\t", " # note\n      ", "\n      # full line\n      ">>
    [] kind = "BNL" -> <<"", " ", "\n  ", "\n\n    ", "\r\n", " # c #d\n  ">>
    [] kind = "NL0" -> <<"\n", "\n\n\n", "\r\n", "\n# between\n", " # t\n\n", "   \n  \n">>
    [] kind = "NL1" -> <<"\n ", "\n\t", "\n", "\n\n   ", "\r\n  ", "\n  # c\n  ", " # t\n  ", " # a #b # c\n  ", "\r  ",     \* (a bare carriage return is a line break for the lexer, no line for positions)
                        " # t\r  ", "\r  # full\r  ">>    \* ... and it ends a comment like any other line break
    [] kind = "NL2" -> <<"\n    ", "\n\t\t", "\n", "\n\n      ", "\r\n    ", "\n    # c\n    ", " # t\n    ", "  #x #y\n    ", "\r    ", " # t\r    ", "\r    # full\r    ">>
    [] kind = "LEAD" -> <<"", " ", "\n", "\n\n  ", "# x\n">>
    [] kind = "FIN" -> <<"", "\n", " # end", "\n\n\n", "   ">>
    [] OTHER -> <<"">>
\* Render: ov is a function from token positions to override strings (possibly empty)
RECURSIVE RenderFrom(_, _, _, _, _, _, _)
RenderFrom(ts, st, ov, i, line, col, acc) ==
  IF i > Len(ts) THEN acc
  ELSE LET tk == ts[i]
           sp == IF i \in DOMAIN ov THEN Scan(ov[i]) ELSE Sep(st, tk.sep)
           lexlines == CountLF(tk.lex, 1)                           \* only condition bodies span lines
           endcol == IF lexlines = 0 THEN col + Len(tk.lex) ELSE AfterLastLF(tk.lex, Len(tk.lex))
           nline == line + lexlines + sp.lines
           ncol == IF sp.lines = 0 THEN endcol + Len(sp.str) ELSE sp.col
       IN RenderFrom(ts, st, ov, i + 1, nline, ncol, [text |-> acc.text \o tk.lex \o sp.str, pos |-> Append(acc.pos, <<line, col>>)])
Render(ts, st, ov) == RenderFrom(ts, st, ov, 1, 0, 0, [text |-> "", pos |-> <<>>])

\* positions of the tagged tokens: << <<tag, line, col>> >>
Tagged(ts, pos) == { <<ts[i].tag, pos[i][1], pos[i][2]>> : i \in { j \in 1..Len(ts) : ts[j].tag # <<>> } }
\* positions where an override of this document is possible: [i, kind]
Sites(ts) == { i \in 1..Len(ts) : ts[i].sep \notin {"NONE", "END"} }

(***************************************************************************)
(* the model a document denotes (when it is a valid one)                   *)
(***************************************************************************)
RECURSIVE Unpar(_)
Unpar(t) == IF t.k = "par" THEN Unpar(t.ch[1])
            ELSE IF t.k \in {"this", "cu", "ttu"} THEN t
            ELSE [k |-> t.k, ch |-> [i \in 1..Len(t.ch) |-> Unpar(t.ch[i])]]
ContainerOf(ty) == IF Len(ty) > 5 /\ SubSeq(ty, 1, 5) = "list<" THEN "TYPE_NAME_LIST" ELSE IF Len(ty) > 4 /\ SubSeq(ty, 1, 4) = "map<" THEN "TYPE_NAME_MAP" ELSE ""
Upper(ty) == CASE ty = "int" -> "TYPE_NAME_INT" [] ty = "string" -> "TYPE_NAME_STRING" [] ty = "bool" -> "TYPE_NAME_BOOL" [] ty = "uint" -> "TYPE_NAME_UINT"
               [] ty = "double" -> "TYPE_NAME_DOUBLE" [] ty = "duration" -> "TYPE_NAME_DURATION" [] ty = "timestamp" -> "TYPE_NAME_TIMESTAMP"
               [] ty = "ipaddress" -> "TYPE_NAME_IPADDRESS"
ParamOf(p) == LET c == ContainerOf(p.ty) IN
              IF c = "" THEN [name |-> p.name, ty |-> Upper(p.ty), elem |-> ""]
              ELSE [name |-> p.name, ty |-> c, elem |-> Upper(SubSeq(p.ty, (IF c = "TYPE_NAME_LIST" THEN 6 ELSE 5), Len(p.ty) - 1))]
ModelOf(D) ==
  [schema |-> IF D.header = "model" THEN D.schema ELSE "",
   module |-> IF D.header = "module" THEN D.module ELSE "",      \* what every declaration of a module file is attributed to
   types |-> [i \in 1..Len(D.types) |-> [name |-> D.types[i].name, ext |-> D.types[i].ext,
                 rels |-> SortBy([j \in 1..Len(D.types[i].rels) |-> [name |-> D.types[i].rels[j].name, rw |-> Unpar(D.types[i].rels[j].rw),
                                     restr |-> IF CountThis(Unpar(D.types[i].rels[j].rw)) = 0 THEN <<>> ELSE D.types[i].rels[j].restr]], "name")]],
   conds |-> SortBy([i \in 1..Len(D.conds) |-> [name |-> D.conds[i].name, expr |-> D.conds[i].expr,
                                                params |-> SortBy([j \in 1..Len(D.conds[i].params) |-> ParamOf(D.conds[i].params[j])], "name")]], "name")]
=============================================================================
