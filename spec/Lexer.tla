--------------------------------- MODULE Lexer ---------------------------------
(***************************************************************************)
(* What reaches the parser: the comment pre-pass of ParseDSL (Impl layer:  *)
(* a transcription of the Go loop) followed by the lexer that              *)
(* OpenFGALexer.g4 describes (grammar layer: every rule of the .g4 as a    *)
(* matcher over characters, ANTLR's choice among them - the longest match  *)
(* wins, among equally long ones the rule written first - the two modes,   *)
(* pushMode / popMode, the hidden channel, positions counted in characters *)
(* with '\n' as the only line end).                                        *)
(*                                                                         *)
(* Binding: the verif hook VerifTokens logs every token the real lexer     *)
(* produced for a document (type, text, line, column, channel) and the     *)
(* errors it reported.  Every recorded document is an initial state; the   *)
(* automaton below lexes the same text one token per step and must hold    *)
(* the recorded token at every step (TokenOK).  Where the text has a       *)
(* character no rule can start with (or a rule cannot finish: an           *)
(* unterminated string) the automaton does what ANTLR does: it drops the   *)
(* text up to and including the first character no rule could take, counts *)
(* one token recognition error (ErrorsCounted) and goes on.                *)
(*                                                                         *)
(* RuleText is the body of every lexer rule as this module transcribes it  *)
(* (blanks and line breaks squeezed out); Artefacts.tla compares it with   *)
(* the rule bodies read from OpenFGALexer.g4, so that an edit of the .g4   *)
(* that is not followed by this module (and the generated lexers) shows.   *)
(***************************************************************************)
EXTENDS Integers, Sequences, FiniteSets, TLC, Json

Docs == ndJsonDeserialize("lexer_docs.ndjson")     \* [id, text, tokens : << <<type name, text, line, col, channel>> >>, lexerr : BOOLEAN]

VARIABLES di,       \* index of the document
          doc,      \* the record (read once)
          cx,       \* the cleaned text as arrays: [n, ch, L, D, H]
          ph,       \* "load" | "clean" | "scan" | "emit" | "skip" | "done"
          pos, line, col, modes, cur, k,
          nerr      \* token recognition errors so far
vars == <<di, doc, cx, ph, pos, line, col, modes, cur, k, nerr>>

(***************************************************************************)
(* 1. The pre-pass of ParseDSL                                             *)
(***************************************************************************)
RECURSIVE SplitAt(_, _, _, _)
\* strings.Split(s, sep) for a one-character separator
SplitAt(s, sep, i, from) ==
  IF i > Len(s) THEN <<SubSeq(s, from, Len(s))>>
  ELSE IF SubSeq(s, i, i) = sep THEN <<SubSeq(s, from, i - 1)>> \o SplitAt(s, sep, i + 1, i + 1)
  ELSE SplitAt(s, sep, i + 1, from)
RECURSIVE TrimRightSet(_, _)
TrimRightSet(s, C) == IF Len(s) > 0 /\ SubSeq(s, Len(s), Len(s)) \in C THEN TrimRightSet(SubSeq(s, 1, Len(s) - 1), C) ELSE s
RECURSIVE TrimLeftBlanks(_)
TrimLeftBlanks(s) == IF Len(s) > 0 /\ SubSeq(s, 1, 1) = " " THEN TrimLeftBlanks(SubSeq(s, 2, Len(s))) ELSE s
RECURSIVE CutComment(_, _)
\* strings.Split(s, " #")[0]
CutComment(s, i) == IF i + 1 > Len(s) THEN s ELSE IF SubSeq(s, i, i + 1) = " #" THEN SubSeq(s, 1, i - 1) ELSE CutComment(s, i + 1)
RECURSIVE Blanks(_)
Blanks(n) == IF n <= 0 THEN "" ELSE " " \o Blanks(n - 1)
RECURSIVE JoinWith(_, _, _)
JoinWith(ss, sep, i) == IF i > Len(ss) THEN "" ELSE ss[i] \o (IF i < Len(ss) THEN sep ELSE "") \o JoinWith(ss, sep, i + 1)
CleanSegment(seg, last) ==
  LET t == TrimLeftBlanks(seg)
      c == IF Len(t) = 0 THEN "" ELSE IF SubSeq(t, 1, 1) = "#" THEN "" ELSE TrimRightSet(CutComment(seg, 1), {" ", "\t", "\r"})
  IN IF last THEN c ELSE c \o Blanks(Len(seg) - Len(c))          \* what follows a bare carriage return keeps its column
CleanLine(ln) ==
  LET l0 == TrimRightSet(ln, {"\r"})
      segs == SplitAt(l0, "\r", 1, 1)
  IN TrimRightSet(JoinWith([j \in 1..Len(segs) |-> CleanSegment(segs[j], j = Len(segs))], "\r", 1), {" ", "\t", "\r"})
Clean(text) ==
  LET lines == SplitAt(text, "\n", 1, 1)
  IN TrimRightSet(JoinWith([j \in 1..Len(lines) |-> CleanLine(lines[j])], "\n", 1), {"\n"})

(***************************************************************************)
(* 2. Characters                                                           *)
(***************************************************************************)
Lower == {"a","b","c","d","e","f","g","h","i","j","k","l","m","n","o","p","q","r","s","t","u","v","w","x","y","z"}
Upper == {"A","B","C","D","E","F","G","H","I","J","K","L","M","N","O","P","Q","R","S","T","U","V","W","X","Y","Z"}
Digit == {"0","1","2","3","4","5","6","7","8","9"}
Hex == Digit \cup {"a","b","c","d","e","f","A","B","C","D","E","F"}
Arrays(s) == LET n == Len(s)
                 ch == [j \in 1..n |-> SubSeq(s, j, j)]
             IN [n |-> n, s |-> s, ch |-> ch, L |-> [j \in 1..n |-> ch[j] \in Lower \/ ch[j] \in Upper], D |-> [j \in 1..n |-> ch[j] \in Digit], H |-> [j \in 1..n |-> ch[j] \in Hex]]
Ch(C, i) == IF i >= 1 /\ i <= C.n THEN C.ch[i] ELSE ""            \* "" stands for the end of input
IsL(C, i) == i <= C.n /\ C.L[i]
IsD(C, i) == i <= C.n /\ C.D[i]
IsH(C, i) == i <= C.n /\ C.H[i]
IsWord(C, i) == IsL(C, i) \/ IsD(C, i) \/ Ch(C, i) = "_"
Text(C, i, e) == SubSeq(C.s, i, e - 1)

(***************************************************************************)
(* 3. The rules of OpenFGALexer.g4.  A matcher returns the index after the *)
(*    longest match that starts at i, 0 if the rule does not match there.  *)
(***************************************************************************)
Lit(C, i, lit) == IF i + Len(lit) - 1 <= C.n /\ SubSeq(C.s, i, i + Len(lit) - 1) = lit THEN i + Len(lit) ELSE 0
RECURSIVE Digits(_, _)
Digits(C, i) == IF IsD(C, i) THEN Digits(C, i + 1) ELSE i          \* end of DIGIT*
RECURSIVE HexDigits(_, _)
HexDigits(C, i) == IF IsH(C, i) THEN HexDigits(C, i + 1) ELSE i
RECURSIVE WsRun(_, _)
WsRun(C, i) == IF Ch(C, i) \in {"\t", " ", "\f"} THEN WsRun(C, i + 1) ELSE i
RECURSIVE ToLineEnd(_, _)
ToLineEnd(C, i) == IF i > C.n \/ Ch(C, i) = "\n" THEN i ELSE ToLineEnd(C, i + 1)
Max2(a, b) == IF a >= b THEN a ELSE b

\* SCHEMA_VERSION: DIGIT+ '.' DIGIT+
MSchemaVersion(C, i) == LET a == Digits(C, i) IN IF a > i /\ Ch(C, a) = "." /\ Digits(C, a + 1) > a + 1 THEN Digits(C, a + 1) ELSE 0
\* WHITESPACE: ('\t' | ' ' | '\u000C')+
MWhitespace(C, i) == IF WsRun(C, i) > i THEN WsRun(C, i) ELSE 0
\* CEL_COMMENT: '//' (~'\n')*
MCelComment(C, i) == IF Lit(C, i, "//") # 0 THEN ToLineEnd(C, i + 2) ELSE 0
\* EXPONENT: ('e' | 'E') ('+' | '-')? DIGIT+     (end index, 0 if none at j)
Exponent(C, j) == IF Ch(C, j) \in {"e", "E"}
                  THEN LET a == IF Ch(C, j + 1) \in {"+", "-"} THEN j + 2 ELSE j + 1 IN IF Digits(C, a) > a THEN Digits(C, a) ELSE 0
                  ELSE 0
OptExp(C, j) == IF Exponent(C, j) # 0 THEN Exponent(C, j) ELSE j
\* NUM_FLOAT: DIGIT+ ('.' DIGIT+) EXPONENT? | DIGIT+ EXPONENT | '.' DIGIT+ EXPONENT?
MNumFloat(C, i) ==
  LET a == Digits(C, i)
      alt1 == IF a > i /\ Ch(C, a) = "." /\ Digits(C, a + 1) > a + 1 THEN OptExp(C, Digits(C, a + 1)) ELSE 0
      alt2 == IF a > i THEN Exponent(C, a) ELSE 0
      alt3 == IF Ch(C, i) = "." /\ Digits(C, i + 1) > i + 1 THEN OptExp(C, Digits(C, i + 1)) ELSE 0
  IN Max2(alt1, Max2(alt2, alt3))
\* NUM_INT: DIGIT+ | '0x' HEXDIGIT+
HexNum(C, i) == IF Lit(C, i, "0x") # 0 /\ HexDigits(C, i + 2) > i + 2 THEN HexDigits(C, i + 2) ELSE 0
MNumInt(C, i) == Max2(IF Digits(C, i) > i THEN Digits(C, i) ELSE 0, HexNum(C, i))
\* NUM_UINT: DIGIT+ ('u' | 'U') | '0x' HEXDIGIT+ ('u' | 'U')
MNumUint(C, i) ==
  LET a == Digits(C, i) h == HexNum(C, i)
  IN Max2(IF a > i /\ Ch(C, a) \in {"u", "U"} THEN a + 1 ELSE 0, IF h # 0 /\ Ch(C, h) \in {"u", "U"} THEN h + 1 ELSE 0)
\* ESC_SEQ at j (a backslash stands there): end index, 0 if it is none
EscSeq(C, j) ==
  LET c == Ch(C, j + 1) IN
  IF c \in {"a", "b", "f", "n", "r", "t", "v", "\"", "'", "\\", "?", "`"} THEN j + 2
  ELSE IF c \in {"x", "X"} THEN (IF IsH(C, j + 2) /\ IsH(C, j + 3) THEN j + 4 ELSE 0)
  ELSE IF c = "u" THEN (IF \A d \in 2..5 : IsH(C, j + d) THEN j + 6 ELSE 0)
  ELSE IF c = "U" THEN (IF \A d \in 2..9 : IsH(C, j + d) THEN j + 10 ELSE 0)
  ELSE IF c \in {"0", "1", "2", "3"} THEN (IF Ch(C, j + 2) \in {"0","1","2","3","4","5","6","7"} /\ Ch(C, j + 3) \in {"0","1","2","3","4","5","6","7"} THEN j + 4 ELSE 0)
  ELSE 0
RECURSIVE QuotedEnd(_, _, _, _, _)
\* body of a quoted string from j on: q = the closing quote text (one or three characters), esc = escape sequences are read,
\* oneline = a line break ends the attempt.  Non-greedy for the three-character quotes: the first closing quote ends the token.
QuotedEnd(C, j, q, esc, oneline) ==
  IF j > C.n THEN 0
  ELSE IF Lit(C, j, q) # 0 THEN j + Len(q)
  ELSE IF esc /\ Ch(C, j) = "\\" THEN (IF EscSeq(C, j) = 0 THEN 0 ELSE QuotedEnd(C, EscSeq(C, j), q, esc, oneline))
  ELSE IF oneline /\ Ch(C, j) \in {"\n", "\r"} THEN 0
  ELSE QuotedEnd(C, j + 1, q, esc, oneline)
\* STRING (eight alternatives; the longest wins)
MString(C, i) ==
  LET raw == Ch(C, i) \in {"r", "R"}
      j == IF raw THEN i + 1 ELSE i
      one(q) == IF Lit(C, j, q) # 0 THEN QuotedEnd(C, j + 1, q, ~raw, TRUE) ELSE 0
      three(q) == IF Lit(C, j, q) # 0 THEN QuotedEnd(C, j + 3, q, ~raw, FALSE) ELSE 0
  IN Max2(Max2(one("\""), one("'")), Max2(three("\"\"\""), three("'''")))
\* BYTES: ('b' | 'B') STRING
MBytes(C, i) == IF Ch(C, i) \in {"b", "B"} THEN MString(C, i + 1) ELSE 0
\* IDENTIFIER: (LETTER | '_') (LETTER | DIGIT | '_' | MINUS)*
RECURSIVE IdRun(_, _)
IdRun(C, i) == IF IsWord(C, i) \/ Ch(C, i) = "-" THEN IdRun(C, i + 1) ELSE i
MIdentifier(C, i) == IF IsL(C, i) \/ Ch(C, i) = "_" THEN IdRun(C, i + 1) ELSE 0
\* EXTENDED_IDENTIFIER: (LETTER | '_') ((SLASH | DOT | MINUS)? (LETTER | DIGIT | '_')+)*
RECURSIVE XIdRun(_, _)
XIdRun(C, i) == IF IsWord(C, i) THEN XIdRun(C, i + 1)
                ELSE IF Ch(C, i) \in {"/", ".", "-"} /\ IsWord(C, i + 1) THEN XIdRun(C, i + 2)
                ELSE i
MExtIdentifier(C, i) == IF IsL(C, i) \/ Ch(C, i) = "_" THEN XIdRun(C, i + 1) ELSE 0
\* NEWLINE: WHITESPACE? ('\r'? '\n' | '\r' | '\f') WHITESPACE? NEWLINE?
\* '\f' is white space and a line end at once: the set of all ends is computed, the largest is the match
WsPrefixes(C, i) == { j \in i..WsRun(C, i) : TRUE }                       \* after zero or more white-space characters
LineEnds(C, a) == (IF Ch(C, a) = "\n" THEN {a + 1} ELSE {}) \cup (IF Ch(C, a) = "\r" THEN {a + 1} \cup (IF Ch(C, a + 1) = "\n" THEN {a + 2} ELSE {}) ELSE {})
                  \cup (IF Ch(C, a) = "\f" THEN {a + 1} ELSE {})
RECURSIVE NlEnds(_, _)
NlEnds(C, i) == LET once == UNION { UNION { WsPrefixes(C, b) : b \in LineEnds(C, a) } : a \in WsPrefixes(C, i) }
                IN once \cup UNION { NlEnds(C, c) : c \in { x \in once : x > i } }
SetMax(S) == IF S = {} THEN 0 ELSE CHOOSE y \in S : \A z \in S : y >= z
MNewline(C, i) == SetMax(NlEnds(C, i))

\* Where no rule accepts any prefix of what stands at i, ANTLR's simulation has still read on for as long as SOME rule could continue:
\* up to the "dead" index, the first character no rule can take (the end of input counts as one). It reports the text i..dead as a
\* token recognition error, drops it - the dead character included, unless it is the end of input - and starts again behind it.
RECURSIVE CommonPrefix(_, _, _, _)
CommonPrefix(C, i, lit, d) == IF d < Len(lit) /\ Ch(C, i + d) = SubSeq(lit, d + 1, d + 1) THEN CommonPrefix(C, i, lit, d + 1) ELSE d
\* an escape sequence at j (a backslash stands there): <<TRUE, index behind it>> or <<FALSE, dead index>>
RECURSIVE HexCount(_, _, _)
HexCount(C, j, max) == IF max > 0 /\ IsH(C, j) THEN 1 + HexCount(C, j + 1, max - 1) ELSE 0
Oct(C, j) == Ch(C, j) \in {"0", "1", "2", "3", "4", "5", "6", "7"}
EscScan(C, j) ==
  LET c == Ch(C, j + 1) IN
  IF c \in {"a", "b", "f", "n", "r", "t", "v", "\"", "'", "\\", "?", "`"} THEN <<TRUE, j + 2>>
  ELSE IF c \in {"x", "X"} THEN (IF HexCount(C, j + 2, 2) = 2 THEN <<TRUE, j + 4>> ELSE <<FALSE, j + 2 + HexCount(C, j + 2, 2)>>)
  ELSE IF c = "u" THEN (IF HexCount(C, j + 2, 4) = 4 THEN <<TRUE, j + 6>> ELSE <<FALSE, j + 2 + HexCount(C, j + 2, 4)>>)
  ELSE IF c = "U" THEN (IF HexCount(C, j + 2, 8) = 8 THEN <<TRUE, j + 10>> ELSE <<FALSE, j + 2 + HexCount(C, j + 2, 8)>>)
  ELSE IF c \in {"0", "1", "2", "3"} THEN (IF Oct(C, j + 2) /\ Oct(C, j + 3) THEN <<TRUE, j + 4>> ELSE IF Oct(C, j + 2) THEN <<FALSE, j + 3>> ELSE <<FALSE, j + 2>>)
  ELSE <<FALSE, j + 1>>
RECURSIVE QuotedDead(_, _, _, _)
\* dead index of an (escaped) quoted string whose body starts at j and that never closes: oneline = a line break is the dead character
QuotedDead(C, j, q, oneline) ==
  IF j > C.n THEN C.n + 1
  ELSE IF Lit(C, j, q) # 0 THEN 0                                    \* (it closes: not dead at all)
  ELSE IF Ch(C, j) = "\\" THEN (IF EscScan(C, j)[1] THEN QuotedDead(C, EscScan(C, j)[2], q, oneline) ELSE EscScan(C, j)[2])
  ELSE IF oneline /\ Ch(C, j) \in {"\n", "\r"} THEN j
  ELSE QuotedDead(C, j + 1, q, oneline)
StringDead(C, i) ==
  LET q == Ch(C, i)
      qqq == q \o q \o q
  IN IF q \notin {"\"", "'"} THEN i
     ELSE Max2(QuotedDead(C, i + 1, q, TRUE), IF Lit(C, i, qqq) # 0 THEN QuotedDead(C, i + 3, qqq, FALSE) ELSE i + CommonPrefix(C, i, qqq, 0))
DefaultLiterals == <<"#", ":", ",", "and", "or", "but not", "from", "module", "model", "schema", "extend", "type", "condition", "relations", "relation", "define", "with",
                     "==", "!=", "in", "<", "<=", ">=", ">", "&&", "||", "[", "]", "{", "}", "(", ")", ".", "-", "!", "?", "+", "*", "/", "%", "true", "false", "null", "//", "0x">>
DeadIndex(C, i, inCondDef) ==
  IF inCondDef THEN i          \* every rule of that mode that could start with the character accepts it (identifier, white space, a one-character literal)
  ELSE Max2(StringDead(C, i), i + SetMax({ CommonPrefix(C, i, DefaultLiterals[j], 0) : j \in 1..Len(DefaultLiterals) }))

\* the rules of the default mode in the order the grammar writes them: <<token type the rule emits, end of its match>>
Default(C, i) == <<
  <<"HASH", Lit(C, i, "#")>>, <<"COLON", Lit(C, i, ":")>>, <<"COMMA", Lit(C, i, ",")>>,
  <<"AND", Lit(C, i, "and")>>, <<"OR", Lit(C, i, "or")>>, <<"BUT_NOT", Lit(C, i, "but not")>>, <<"FROM", Lit(C, i, "from")>>,
  <<"MODULE", Lit(C, i, "module")>>, <<"MODEL", Lit(C, i, "model")>>, <<"SCHEMA", Lit(C, i, "schema")>>, <<"SCHEMA_VERSION", MSchemaVersion(C, i)>>,
  <<"EXTEND", Lit(C, i, "extend")>>, <<"TYPE", Lit(C, i, "type")>>, <<"CONDITION", Lit(C, i, "condition")>>,
  <<"RELATIONS", Lit(C, i, "relations")>>, <<"RELATION", Lit(C, i, "relation")>>, <<"DEFINE", Lit(C, i, "define")>>, <<"KEYWORD_WITH", Lit(C, i, "with")>>,
  <<"EQUALS", Lit(C, i, "==")>>, <<"NOT_EQUALS", Lit(C, i, "!=")>>, <<"IN", Lit(C, i, "in")>>, <<"LESS", Lit(C, i, "<")>>, <<"LESS_EQUALS", Lit(C, i, "<=")>>,
  <<"GREATER_EQUALS", Lit(C, i, ">=")>>, <<"GREATER", Lit(C, i, ">")>>, <<"LOGICAL_AND", Lit(C, i, "&&")>>, <<"LOGICAL_OR", Lit(C, i, "||")>>,
  <<"LBRACKET", Lit(C, i, "[")>>, <<"RPRACKET", Lit(C, i, "]")>>, <<"LBRACE", Lit(C, i, "{")>>, <<"RBRACE", Lit(C, i, "}")>>, <<"LPAREN", Lit(C, i, "(")>>, <<"RPAREN", Lit(C, i, ")")>>,
  <<"DOT", Lit(C, i, ".")>>, <<"MINUS", Lit(C, i, "-")>>, <<"EXCLAM", Lit(C, i, "!")>>, <<"QUESTIONMARK", Lit(C, i, "?")>>, <<"PLUS", Lit(C, i, "+")>>, <<"STAR", Lit(C, i, "*")>>,
  <<"SLASH", Lit(C, i, "/")>>, <<"PERCENT", Lit(C, i, "%")>>, <<"CEL_TRUE", Lit(C, i, "true")>>, <<"CEL_FALSE", Lit(C, i, "false")>>, <<"NUL", Lit(C, i, "null")>>,
  <<"WHITESPACE", MWhitespace(C, i)>>, <<"CEL_COMMENT", MCelComment(C, i)>>, <<"NUM_FLOAT", MNumFloat(C, i)>>, <<"NUM_INT", MNumInt(C, i)>>, <<"NUM_UINT", MNumUint(C, i)>>,
  <<"STRING", MString(C, i)>>, <<"BYTES", MBytes(C, i)>>, <<"IDENTIFIER", MIdentifier(C, i)>>, <<"EXTENDED_IDENTIFIER", MExtIdentifier(C, i)>>, <<"NEWLINE", MNewline(C, i)>> >>
\* mode CONDITION_DEF (rules that re-type their token are listed under the type they emit)
ContainerEnd(C, i) == Max2(Lit(C, i, "map"), Lit(C, i, "list"))
ParamTypeEnd(C, i) == Max2(Max2(Max2(Lit(C, i, "bool"), Lit(C, i, "string")), Max2(Lit(C, i, "int"), Lit(C, i, "uint"))),
                           Max2(Max2(Lit(C, i, "double"), Lit(C, i, "duration")), Max2(Lit(C, i, "timestamp"), Lit(C, i, "ipaddress"))))
CondDef(C, i) == <<
  <<"RPAREN", Lit(C, i, ")")>>, <<"CONDITION_PARAM_CONTAINER", ContainerEnd(C, i)>>, <<"CONDITION_PARAM_TYPE", ParamTypeEnd(C, i)>>,
  <<"LESS", Lit(C, i, "<")>>, <<"GREATER", Lit(C, i, ">")>>, <<"LPAREN", Lit(C, i, "(")>>, <<"COLON", Lit(C, i, ":")>>, <<"COMMA", Lit(C, i, ",")>>,
  <<"WHITESPACE", MWhitespace(C, i)>>, <<"IDENTIFIER", MIdentifier(C, i)>> >>
\* ANTLR's choice: the longest match, among equally long ones the rule written first; <<"", 0>> if no rule matches
Best(cands) ==
  LET n == Len(cands)
      m == SetMax({ cands[j][2] : j \in 1..n })
  IN IF m = 0 THEN <<"", 0>> ELSE cands[CHOOSE j \in 1..n : cands[j][2] = m /\ \A h \in 1..(j - 1) : cands[h][2] # m]
Hidden(ty) == ty = "CEL_COMMENT"

\* (the rule bodies as transcribed above are listed in LexerRules.tla: RuleText, RuleOrder - compared with the .g4 by Artefacts.tla)

(***************************************************************************)
(* 4. The automaton: one token per two steps (scan, emit)                  *)
(***************************************************************************)
Init == /\ di \in 1..Len(Docs) /\ doc = <<>> /\ cx = <<>> /\ ph = "load" /\ pos = 1 /\ line = 0 /\ col = 0 /\ modes = <<>> /\ cur = <<"", 0>> /\ k = 0 /\ nerr = 0
Load == /\ ph = "load" /\ doc' = Docs[di] /\ ph' = "clean" /\ UNCHANGED <<di, cx, pos, line, col, modes, cur, k, nerr>>
CleanStep == /\ ph = "clean" /\ cx' = Arrays(Clean(doc.text)) /\ ph' = "scan" /\ UNCHANGED <<di, doc, pos, line, col, modes, cur, k, nerr>>
Scan == /\ ph = "scan"
        /\ IF pos > cx.n THEN cur' = <<"EOF", pos>> /\ ph' = "emit"
           ELSE LET b == Best(IF modes = <<>> THEN Default(cx, pos) ELSE CondDef(cx, pos))
                IN IF b[2] # 0 THEN cur' = b /\ ph' = "emit"
                   ELSE cur' = <<"", DeadIndex(cx, pos, modes # <<>>)>> /\ ph' = "skip"
        /\ UNCHANGED <<di, doc, cx, pos, line, col, modes, k, nerr>>
RECURSIVE Advance(_, _, _, _, _)
\* position after the text i..e-1: only '\n' starts a new line, columns count characters
Advance(C, i, e, ln, cl) == IF i >= e THEN <<ln, cl>> ELSE IF C.ch[i] = "\n" THEN Advance(C, i + 1, e, ln + 1, 0) ELSE Advance(C, i + 1, e, ln, cl + 1)
Emit == /\ ph = "emit"
        /\ k' = k + 1
        /\ IF cur[1] = "EOF" THEN ph' = "done" /\ UNCHANGED <<pos, line, col, modes>>
           ELSE /\ pos' = cur[2]
                /\ LET a == Advance(cx, pos, cur[2], line, col) IN line' = a[1] /\ col' = a[2]
                /\ modes' = IF modes = <<>> /\ cur[1] = "CONDITION" THEN <<"CONDITION_DEF">>
                            ELSE IF modes # <<>> /\ cur[1] = "RPAREN" THEN <<>> ELSE modes
                /\ ph' = "scan"
        /\ UNCHANGED <<di, doc, cx, cur, nerr>>
\* a token recognition error: the text up to and including the dead character is dropped (the end of input is not a character)
Skip == /\ ph = "skip"
        /\ LET next == IF cur[2] <= cx.n THEN cur[2] + 1 ELSE cx.n + 1
                a == Advance(cx, pos, next, line, col)
           IN pos' = next /\ line' = a[1] /\ col' = a[2]
        /\ nerr' = nerr + 1 /\ ph' = "scan"
        /\ UNCHANGED <<di, doc, cx, modes, cur, k>>
Next == Load \/ CleanStep \/ Scan \/ Emit \/ Skip
Spec == Init /\ [][Next]_vars

\* the token the automaton holds after Scan, as the hook logs it
Held == <<cur[1], IF cur[1] = "EOF" THEN "<EOF>" ELSE Text(cx, pos, cur[2]), line, col, IF Hidden(cur[1]) THEN 1 ELSE 0>>
\* every token is the recorded one, in order
TokenOK == ph = "emit" => /\ k + 1 <= Len(doc.tokens)
                          /\ doc.tokens[k + 1] = Held
\* the automaton ends with the recorded run (nothing recorded beyond EOF)
AllTokens == ph = "done" => k = Len(doc.tokens)
\* as many token recognition errors as the run reported
ErrorsCounted == ph = "done" => nerr = doc.nlexerr
=============================================================================
