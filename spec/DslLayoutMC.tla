----------------------------- MODULE DslLayoutMC -----------------------------
(***************************************************************************)
(* Documents and layout jobs for DslLayout.                                *)
(* A job (chosen by the driver: exhaustive over single style dimensions    *)
(* and single overrides, seeded random mixtures) is                        *)
(*   [id, doc, viol, vsite, style, ov : << <<site ordinal, alt ordinal>> >>] *)
(* The specification builds the document, applies the violation of the     *)
(* catalogue (C09) if any, renders it, and prints the text together with   *)
(* the model it denotes and the position of every tagged declaration.      *)
(***************************************************************************)
EXTENDS DslWalk

CONSTANTS JobAt(_), NumJobs
VARIABLES ji, job
vars == <<ji, job>>

(***************************************************************************)
(* documents                                                               *)
(***************************************************************************)
\* name sets: plain; keywords usable as names; dashed / dotted / slashed / underscore identifiers
Names(n) == CASE n = 0 -> [user |-> "user", doc |-> "doc", a |-> "a", b |-> "b", p |-> "p", x |-> "x", c |-> "c1", k |-> "x"]
              [] n = 1 -> [user |-> "type", doc |-> "model", a |-> "schema", b |-> "relation", p |-> "module", x |-> "extend", c |-> "cond_1", k |-> "ts"]
              [] n = 2 -> [user |-> "a-b", doc |-> "a.b/c", a |-> "r_1", b |-> "_x", p |-> "A1", x |-> "x-", c |-> "k-1", k |-> "ip_addr"]
LeafAt(N, i) == CASE i % 3 = 0 -> [k |-> "cu", rel |-> N.a] [] i % 3 = 1 -> [k |-> "ttu", rel |-> N.b, ts |-> N.p] [] OTHER -> [k |-> "cu", rel |-> N.b]
OpAt(i) == CASE i % 3 = 0 -> "union" [] i % 3 = 1 -> "inter" [] OTHER -> "diff"
\* depth-1 tree number i: a leaf, or an operator over 2..3 leaves
Tree1At(N, i) ==
  IF i % 4 = 0 THEN LeafAt(N, i \div 4)
  ELSE LET op == OpAt(i \div 4)
           n == IF op = "diff" THEN 2 ELSE 2 + ((i \div 12) % 2)
       IN [k |-> op, ch |-> [j \in 1..n |-> LeafAt(N, (i \div 24) + j * (1 + (i \div 72)))]]
\* depth-2 tree number i: an operator over 2..3 depth-1 trees
Tree2At(N, i) ==
  LET op == OpAt(i)
      n == IF op = "diff" THEN 2 ELSE 2 + ((i \div 3) % 2)
  IN [k |-> op, ch |-> [j \in 1..n |-> Tree1At(N, (i \div 6) * j + j)]]
\* where the direct assignment goes: nowhere / instead of the tree / first operand of the root / first operand of the first operand
WithThis(t, w) ==
  CASE w = 0 -> t
    [] w = 1 -> IF IsLeaf(t) THEN [k |-> "this"] ELSE [t EXCEPT !.ch[1] = [k |-> "this"]]
    [] w = 2 -> IF IsLeaf(t) THEN [k |-> "this"] ELSE IF IsLeaf(t.ch[1]) THEN [t EXCEPT !.ch[1] = [k |-> "this"]] ELSE [t EXCEPT !.ch[1].ch[1] = [k |-> "this"]]
\* redundant parentheses: none / around every leaf operand of the root / around the whole expression / doubled
RECURSIVE ParLeaves(_)
ParLeaves(t) == IF IsLeaf(t) THEN (IF t.k = "this" THEN t ELSE [k |-> "par", ch |-> <<t>>]) ELSE [k |-> t.k, ch |-> [i \in 1..Len(t.ch) |-> ParLeaves(t.ch[i])]]
WithPar(t, q) == CASE q = 0 -> t [] q = 1 -> ParLeaves(t)
                   [] q = 2 -> [k |-> "par", ch |-> <<t>>]
                   [] q = 3 -> [k |-> "par", ch |-> <<[k |-> "par", ch |-> <<t>>]>>]
Ty(t) == [t |-> t, kind |-> "type", rel |-> "", cond |-> ""]
Wi(t) == [t |-> t, kind |-> "wild", rel |-> "", cond |-> ""]
Us(t, r) == [t |-> t, kind |-> "uset", rel |-> r, cond |-> ""]
WithC(x, c) == [x EXCEPT !.cond = c]
RestrAt(N, v) == CASE v = 0 -> <<Ty(N.user)>>
                   \* (a restriction written twice - apart, or next to itself - is there twice)
                   [] v = 1 -> <<Ty(N.user), Wi(N.user), WithC(Us(N.doc, N.a), N.c), WithC(Wi(N.user), N.c), Ty(N.user)>>
                   [] v = 2 -> <<WithC(Ty(N.user), N.c), Us(N.doc, N.b), Us(N.doc, N.b), Ty(N.doc)>>
ExprAt(N, v) == CASE v = 0 -> N.k \o " < 10"
                  [] v = 1 -> N.k \o " in [1, 2, 3] && (ys[0] == \"a b\" || !flag) && " \o N.k \o " % 2 == 0 && ys[1] != \"100%\""
                  [] v = 2 -> N.k \o ".size() >= 1 &&\n    ys.all(y, y != 'q')"
Cond1(N, v) == [name |-> N.c, params |-> <<[name |-> N.k, ty |-> IF v = 2 THEN "list<string>" ELSE "int"], [name |-> "ys", ty |-> "list<string>"], [name |-> "flag", ty |-> "bool"]>>, expr |-> ExprAt(N, v)]
AllTypesCond == [name |-> "all_types", params |-> <<[name |-> "a", ty |-> "bool"], [name |-> "b", ty |-> "string"], [name |-> "c", ty |-> "int"], [name |-> "d", ty |-> "uint"],
                  [name |-> "e", ty |-> "double"], [name |-> "f", ty |-> "duration"], [name |-> "g", ty |-> "timestamp"], [name |-> "h", ty |-> "ipaddress"],
                  [name |-> "i", ty |-> "map<int>"], [name |-> "j", ty |-> "list<ipaddress>"]>>, expr |-> "a && c < 3"]
\* document number i
DocAt(i) ==
  LET N == Names(i % 3)
      d == (i \div 3) % 3                                      \* 0: depth <= 1, 1: depth 2, 2: module file
      tn == i \div 9
      \* the dimensions are decoded from tn with different strides so that they do not move in lock step
      \* (root operator = tr % 3, position of the direct assignment = tn % 3, parentheses = (tn \div 3) % 4, variants = (tn \div 2) % 3)
      tr == tn + 7 * (tn \div 3)
      base == IF d = 1 THEN Tree2At(N, tr) ELSE Tree1At(N, tr)
      t == WithPar(WithThis(base, tn % 3), (tn \div 3) % 4)
      v == (tn \div 2) % 3
      rel(n, rw, restr) == [name |-> n, rw |-> rw, restr |-> restr]
      docrels == << rel(N.p, [k |-> "this"], <<Ty(N.doc)>>), rel(N.x, t, RestrAt(N, v)), rel(N.a, [k |-> "this"], <<Ty(N.user)>>), rel(N.b, [k |-> "this"], <<Ty(N.user), Us(N.doc, N.a)>>) >>
  IN IF d = 2
     THEN [header |-> "module", schema |-> "", module |-> N.p,
           types |-> << [name |-> N.user, ext |-> FALSE, rels |-> <<>>], [name |-> N.doc, ext |-> TRUE, rels |-> docrels] >>,
           conds |-> IF v = 0 THEN <<>> ELSE <<Cond1(N, v)>>]
     ELSE [header |-> "model", schema |-> IF v = 2 THEN "1.2" ELSE "1.1", module |-> "",
           types |-> << [name |-> N.user, ext |-> FALSE, rels |-> <<>>], [name |-> N.doc, ext |-> FALSE, rels |-> docrels] >>
                     \o (IF v = 1 THEN << [name |-> "empty", ext |-> FALSE, rels |-> <<>>] >> ELSE <<>>),
           conds |-> IF v = 0 THEN <<>> ELSE IF v = 1 THEN <<Cond1(N, v)>> ELSE <<Cond1(N, v), AllTypesCond>>]

\* C19 (behavioural half for Go): every keyword the grammar admits as an identifier, in every identifier position
Keywords == <<"model", "schema", "type", "relation", "module", "extend">>
KwDoc(k, role) ==
  LET kw == Keywords[(k % 6) + 1]
      N0 == Names(0)
      pick(r, dflt) == IF role % 10 = r THEN kw ELSE dflt
      op == OpAt(role \div 10)
      tname == pick(0, "doc")
      rels == << [name |-> pick(1, "p"), rw |-> [k |-> "this"], restr |-> <<Ty(pick(2, tname))>>],
                 [name |-> "a", rw |-> [k |-> "this"], restr |-> <<Ty("user"), Us(pick(2, tname), pick(3, pick(1, "p")))>>],
                 [name |-> "b", rw |-> [k |-> "this"], restr |-> <<Ty("user")>>],
                 [name |-> "kwrel", rw |-> [k |-> "this"], restr |-> <<Ty("user")>>],
                 [name |-> "x", rw |-> [k |-> op, ch |-> << [k |-> "cu", rel |-> "a"],
                                                          CASE role % 10 = 4 -> [k |-> "cu", rel |-> kw]                                   \* operand right after or / and / but not
                                                            [] role % 10 = 5 -> [k |-> "ttu", rel |-> kw, ts |-> pick(1, "p")]             \* computed relation of a tuple-to-userset
                                                            [] role % 10 = 6 -> [k |-> "ttu", rel |-> "b", ts |-> kw]                      \* tupleset
                                                            [] role % 10 = 7 -> [k |-> "par", ch |-> <<[k |-> "cu", rel |-> kw]>>]         \* inside parentheses
                                                            [] OTHER -> [k |-> "cu", rel |-> "b"] >>], restr |-> <<>>] >>
      rels2 == IF role % 10 \in {4, 5, 6, 7} THEN [rels EXCEPT ![4].name = kw] ELSE rels
  IN IF role % 10 = 8
     THEN [header |-> "module", schema |-> "", module |-> kw, types |-> << [name |-> "user", ext |-> FALSE, rels |-> <<>>], [name |-> tname, ext |-> TRUE, rels |-> rels2] >>, conds |-> <<>>]
     ELSE [header |-> "model", schema |-> "1.1", module |-> "", types |-> << [name |-> "user", ext |-> FALSE, rels |-> <<>>], [name |-> tname, ext |-> FALSE, rels |-> rels2] >>, conds |-> <<>>]

\* names in which a separator character glues two parts: the same text splits in two ways between a type and a relation name
\* (type org + relation team.member / type org.team + relation member), in both orders, in a model and in a module file
DotDoc(i) ==
  LET sep == <<".", "/", "-", "_">>[(i % 4) + 1]
      modular == (i \div 4) % 2 = 1
      t1 == "org"
      t2 == "org" \o sep \o "team"
      r1 == "team" \o sep \o "member"
      r2 == "member"
      rel(n, rw, restr) == [name |-> n, rw |-> rw, restr |-> restr]
      ta == [name |-> t1, ext |-> FALSE, rels |-> <<rel(r1, [k |-> "this"], <<Ty("user")>>), rel(r2, [k |-> "cu", rel |-> r1], <<>>)>>]
      tb == [name |-> t2, ext |-> FALSE, rels |-> <<rel(r2, [k |-> "this"], <<Ty("user"), Us(t1, r1)>>), rel(r1, [k |-> "union", ch |-> <<[k |-> "this"], [k |-> "cu", rel |-> r2]>>], <<Ty(t1)>>)>>]
  IN [header |-> IF modular THEN "module" ELSE "model", schema |-> IF modular THEN "" ELSE "1.1", module |-> IF modular THEN "m" ELSE "",
      types |-> <<[name |-> "user", ext |-> FALSE, rels |-> <<>>]>> \o (IF (i \div 8) % 2 = 0 THEN <<ta, tb>> ELSE <<tb, ta>>), conds |-> <<>>]

\* documents off the indexed family (job key `special`):
\*  0, 1     conditions and no type at all (model / module file)
\*  2, 3     a condition whose body is empty (`{` directly followed by `}`; with another condition before / after it)
\*  4 ..     an operator over n = 1..10 leaves followed (or preceded, or both) by a parenthesised group of the other operator:
\*           `a or b or c or d or e or (f and g)` - the width of an operator list is not bounded by the grammar
SpecialDoc(i) ==
  LET N == Names(0)
      rel(n, rw, restr) == [name |-> n, rw |-> rw, restr |-> restr]
      base(rels, conds, modular) ==
        [header |-> IF modular THEN "module" ELSE "model", schema |-> IF modular THEN "" ELSE "1.1", module |-> IF modular THEN "m" ELSE "",
         types |-> IF rels = <<>> THEN <<>> ELSE << [name |-> "user", ext |-> FALSE, rels |-> <<>>], [name |-> "doc", ext |-> FALSE, rels |-> rels] >>, conds |-> conds]
      leaf(j) == IF j % 4 = 3 THEN [k |-> "ttu", rel |-> "b", ts |-> "p"] ELSE [k |-> "cu", rel |-> <<"a", "b", "p">>[(j % 4) + 1]]
      wide(j) == LET n == (j % 10) + 1
                     op == IF (j \div 10) % 2 = 0 THEN "union" ELSE "inter"
                     other == IF op = "union" THEN "inter" ELSE "union"
                     grp(g) == [k |-> IF g % 3 = 2 THEN "diff" ELSE other, ch |-> <<leaf(g), leaf(g + 1)>> \o (IF g % 3 = 1 THEN <<leaf(g + 2)>> ELSE <<>>)]
                     where == (j \div 20) % 4           \* group last / group last after a leading direct assignment / group in the middle / two groups
                     ls == [x \in 1..n |-> leaf(x)]
                     ch == CASE where = 0 -> ls \o <<grp(n)>>
                             [] where = 1 -> <<[k |-> "this"]>> \o ls \o <<grp(n)>>
                             [] where = 2 -> ls \o <<grp(n), leaf(n + 1)>>
                             [] OTHER -> ls \o <<grp(n), grp(n + 1)>>
                 IN base(<< rel("p", [k |-> "this"], <<Ty("doc")>>), rel("x", [k |-> op, ch |-> ch], <<Ty("user")>>), rel("a", [k |-> "this"], <<Ty("user")>>),
                            rel("b", [k |-> "this"], <<Ty("user")>>) >>, <<>>, (j \div 80) % 2 = 1)
      emptyc == [name |-> "nobody", params |-> <<[name |-> "x", ty |-> "int"]>>, expr |-> ""]
      plainrels == << rel("a", [k |-> "this"], <<Ty("user"), WithC(Ty("user"), "nobody")>>) >>
  IN CASE i = 0 -> base(<<>>, <<Cond1(N, 1), AllTypesCond>>, FALSE)
       [] i = 1 -> base(<<>>, <<Cond1(N, 2)>>, TRUE)
       [] i = 2 -> base(plainrels, <<emptyc, Cond1(N, 1)>>, FALSE)
       [] i = 3 -> base(plainrels, <<AllTypesCond, emptyc>>, TRUE)
       [] i \in 164..167 ->      \* a module file that extends a type and declares a type of that name as well (either order; with another type between)
            LET ext == [name |-> "doc", ext |-> TRUE, rels |-> << rel("a", [k |-> "this"], <<Ty("user")>>) >>]
                decl == [name |-> "doc", ext |-> FALSE, rels |-> << rel("b", [k |-> "cu", rel |-> "a"], <<>>), rel("p", [k |-> "this"], <<Ty("doc")>>) >>]
                usr == [name |-> "user", ext |-> FALSE, rels |-> <<>>]
            IN [header |-> "module", schema |-> "", module |-> "m",
                types |-> CASE i = 164 -> <<usr, ext, decl>> [] i = 165 -> <<usr, decl, ext>> [] i = 166 -> <<ext, usr, decl>> [] OTHER -> <<decl, usr, ext>>, conds |-> <<>>]
       [] i \in 168..175 ->      \* parenthesised groups nested 11 to 32 deep, to the left or to the right, the three operators taking turns
            LET depth == <<11, 13, 20, 32>>[((i - 168) % 4) + 1]
                left == (i - 168) \div 4 = 0
                RECURSIVE nest(_)
                nest(d) == IF d = 0 THEN leaf(0)
                           ELSE LET op == <<"union", "inter", "diff">>[(d % 3) + 1]
                                IN [k |-> op, ch |-> IF left THEN <<nest(d - 1), leaf(d)>> ELSE <<leaf(d), nest(d - 1)>>]
            IN base(<< rel("p", [k |-> "this"], <<Ty("doc")>>), rel("x", nest(depth), <<>>), rel("a", [k |-> "this"], <<Ty("user")>>), rel("b", [k |-> "this"], <<Ty("user")>>) >>, <<>>, FALSE)
       [] OTHER -> wide(i - 4)
NumSpecial == 4 + 160 + 4 + 8

(***************************************************************************)
(* C09: the catalogue of structural violations, D -> D' at a site          *)
(***************************************************************************)
XRel(D) == CHOOSE j \in 1..Len(D.types[2].rels) : D.types[2].rels[j].name = Names(0).x \/ D.types[2].rels[j].name = Names(1).x \/ D.types[2].rels[j].name = Names(2).x
SetXRw(D, rw) == [D EXCEPT !.types[2].rels[XRel(D)].rw = rw]
SetXRwRestr(D, rw, restr) == [D EXCEPT !.types[2].rels[XRel(D)].rw = rw, !.types[2].rels[XRel(D)].restr = restr]
InsertAt(s, i, x) == SubSeq(s, 1, i - 1) \o <<x>> \o SubSeq(s, i, Len(s))
\* an expression that mixes operators at one level: operands a OP1 b OP2 (c), nested `depth` levels deep in parentheses
RECURSIVE Nest(_, _, _)
Nest(t, depth, N) == IF depth = 0 THEN t ELSE [k |-> "union", ch |-> <<[k |-> "cu", rel |-> N.a], Nest(t, depth - 1, N)>>]
Violate(D, v, site, N) ==
  LET nrels == Len(D.types[2].rels)
      ri == (site % nrels) + 1
      depth == site % 3
      mixed(o1, o2) == [k |-> "mixed", ch |-> <<[k |-> "cu", rel |-> N.a], [k |-> "ttu", rel |-> N.b, ts |-> N.p], [k |-> "cu", rel |-> N.b]>>, ops |-> <<o1, o2>>]
      ops == << <<"or", "and">>, <<"and", "or">>, <<"or", "but not">>, <<"but not", "or">>, <<"and", "but not">>, <<"but not", "and">>, <<"but not", "but not">> >>
      xr == D.types[2].rels[XRel(D)]
  IN CASE v = 1 ->     \* different operators mixed at one nesting level, at depth 0..2
            [viol |-> "mixed operators", tag |-> <<>>,
             doc |-> SetXRw(D, Nest(mixed(ops[((site \div 3) % 7) + 1][1], ops[((site \div 3) % 7) + 1][2]), depth, N))]
       [] v = 2 ->     \* a direct assignment that is not the first operand (also inside parentheses)
            [viol |-> "direct assignment not first", tag |-> <<>>,
             doc |-> SetXRwRestr(D, Nest([k |-> OpAt(site \div 3), ch |-> <<[k |-> "cu", rel |-> N.a], [k |-> "this"]>>], depth, N), <<Ty(N.user)>>)]
       [] v = 3 ->     \* an empty type-restriction list
            [viol |-> "empty restriction list", tag |-> <<>>,
             doc |-> [D EXCEPT !.types[2].rels[ri] = [@ EXCEPT !.rw = IF site % 2 = 0 THEN [k |-> "this"] ELSE [k |-> "union", ch |-> <<[k |-> "this"], [k |-> "cu", rel |-> N.a]>>], !.restr = <<>>]]]
       [] v = 4 ->     \* wildcard combined with a relation in one restriction
            [viol |-> "wildcard with relation", tag |-> <<>>,
             doc |-> [D EXCEPT !.types[2].rels[ri] = [@ EXCEPT !.rw = [k |-> "this"],
                        !.restr = InsertAt(<<Ty(N.user), Us(N.doc, N.a)>>, ((site \div 2) % 3) + 1, [t |-> N.doc, kind |-> IF site % 2 = 0 THEN "wildrel" ELSE "relwild", rel |-> N.a, cond |-> ""])]]]
       [] v = 5 ->     \* a relation defined twice in a type; the copy takes one of five rewrite shapes
            LET src == D.types[2].rels[ri]
                shape == (site \div nrels) % 5
                copy == [src EXCEPT !.rw = CASE shape = 0 -> src.rw [] shape = 1 -> [k |-> "cu", rel |-> N.a] [] shape = 2 -> [k |-> "this"]
                                              [] shape = 3 -> [k |-> "ttu", rel |-> N.a, ts |-> N.p] [] OTHER -> [k |-> "inter", ch |-> <<[k |-> "cu", rel |-> N.a], [k |-> "cu", rel |-> N.b]>>],
                                    !.restr = IF shape = 2 THEN <<Ty(N.user)>> ELSE src.restr]
                at == ((site \div (nrels * 5)) % (nrels + 1 - ri)) + ri + 1
            IN [viol |-> "duplicate relation", tag |-> <<"rel", 2, at>>, doc |-> [D EXCEPT !.types[2].rels = InsertAt(@, at, copy)]]
       [] v = 6 ->     \* a condition defined twice
            \* (an empty body is a body: the earlier or the later declaration, or both, may have one)
            LET c == Cond1(N, 1)
                e1 == CASE site % 4 = 1 -> "" [] site % 4 = 3 -> "" [] OTHER -> c.expr
                e2 == CASE site % 4 = 2 -> "" [] site % 4 = 3 -> "" [] OTHER -> "flag"
            IN [viol |-> "duplicate condition", tag |-> <<"cond", Len(D.conds) + 2>>, doc |-> [D EXCEPT !.conds = @ \o <<[c EXCEPT !.expr = e1], [c EXCEPT !.expr = e2]>>]]
       [] v = 7 ->     \* a condition parameter defined twice
            LET c == Cond1(N, 1)
                dup == [name |-> c.params[(site % 3) + 1].name, ty |-> IF (site \div 3) % 2 = 0 THEN "string" ELSE "map<string>"]
                at == ((site \div 6) % (4 - ((site % 3) + 1))) + (site % 3) + 2
            IN [viol |-> "duplicate parameter", tag |-> <<"param", Len(D.conds) + 1, at>>, doc |-> [D EXCEPT !.conds = Append(@, [c EXCEPT !.params = InsertAt(@, at, dup)])]]
       [] v = 8 ->     \* extend in a non-modular model
            \* (whatever the schema version says: 1.2 is the version modular models are written in, a `model` header is no module header)
            [viol |-> "extend in model", tag |-> <<"type", (site % Len(D.types)) + 1>>,
             doc |-> [D EXCEPT !.header = "model", !.schema = IF (site \div Len(D.types)) % 2 = 0 THEN "1.1" ELSE "1.2", !.types[(site % Len(D.types)) + 1].ext = TRUE]]
       [] v = 9 ->     \* the same type extended twice in one module file
            LET t == [name |-> N.doc, ext |-> TRUE, rels |-> <<[name |-> "zz", rw |-> [k |-> "cu", rel |-> N.a], restr |-> <<>>]>>]
                base0 == [D EXCEPT !.header = "module", !.module = N.p, !.types[2].ext = TRUE]
                \* every other site: the first extension is the very first type block of the file
                base == IF (site \div 2) % 2 = 1 THEN [base0 EXCEPT !.types = <<base0.types[2], base0.types[1]>> \o SubSeq(base0.types, 3, Len(base0.types))] ELSE base0
                at == (site % 2) + 3
            IN [viol |-> "type extended twice", tag |-> <<"type", at>>, doc |-> [base EXCEPT !.types = InsertAt(Append(@, [name |-> "other", ext |-> FALSE, rels |-> <<>>]), at, t)]]
       [] v = 10 ->    \* both headers
            [viol |-> "both headers", tag |-> <<>>, doc |-> [D EXCEPT !.header = "both", !.schema = "1.1", !.module = N.p]]
       [] v = 11 ->    \* neither header
            [viol |-> "no header", tag |-> <<>>, doc |-> [D EXCEPT !.header = "none"]]
       [] v = 12 ->    \* a container parameter type without element type
            LET c == Cond1(N, 1) IN
            [viol |-> "container without element type", tag |-> <<>>,
             doc |-> [D EXCEPT !.conds = Append(@, [c EXCEPT !.name = "cx", !.params[(site % 3) + 1].ty = <<"list", "map", "list<>", "map<>">>[((site \div 3) % 4) + 1]])]]     \* (angle brackets with nothing between them are no element type)
       [] v = 13 ->    \* a container parameter type with a nested element type
            LET c == Cond1(N, 1)
                tys == <<"list<list<string>>", "map<map<int>>", "list<map<bool>>", "map<list<int>>">>
            IN [viol |-> "nested container type", tag |-> <<>>,
                doc |-> [D EXCEPT !.conds = Append(@, [c EXCEPT !.name = "cx", !.params[(site % 3) + 1].ty = tys[((site \div 3) % 4) + 1]])]]
       [] v = 14 ->    \* neither header and nothing else: an empty document, or one of blank and comment lines only (the layout supplies them)
            [viol |-> "empty document", tag |-> <<>>, doc |-> [D EXCEPT !.header = "none", !.types = <<>>, !.conds = <<>>]]
NumViolations == 14

(***************************************************************************)
(* jobs                                                                    *)
(***************************************************************************)
RECURSIVE SortedSeq(_)
SortedSeq(S) == IF S = {} THEN <<>> ELSE LET m == CHOOSE x \in S : \A y \in S : x <= y IN <<m>> \o SortedSeq(S \ {m})
Overrides(ts, ov) ==
  LET sites == SortedSeq(Sites(ts))
      n == Len(sites)
      pick(k) == LET i == sites[(ov[k][1] % n) + 1]
                     alts == Alts(ts[i].sep)
                 IN <<i, alts[(ov[k][2] % Len(alts)) + 1]>>
  IN IF n = 0 THEN [x \in {} |-> ""] ELSE [i \in { pick(k)[1] : k \in 1..Len(ov) } |-> (CHOOSE p \in { pick(k) : k \in 1..Len(ov) } : p[1] = i)[2]]
\* C08: the token-mutation neighbourhood of a valid token stream - delete / duplicate / substitute / transpose
SubPool == <<"[", "]", "(", ")", ":", ",", "#", "*", "or", "and", "but not", "from", "with", "define", "relations", "type", "extend", "model", "module",
             "schema", "condition", "{", "}", "x", "1.1", "<", ">", "list", "map", "\"", "'", "\\", "//", "\f", "\t", "0x", "1e", "b\"", "r'", "@">>
\* characters no lexer rule starts with (outside strings and comments): glued to the END of a lexeme they leave a token stream that
\* is still a sentence once the lexer has dropped them - the document is not in the language and must be rejected all the same
Junk == <<"$", ";", "@", "~", "`", "^", "|", "&", "=", "\"">>
MutateOne(ts, mu) ==
  LET n == Len(ts)
      i == (mu[2] % (n - 1)) + 2                \* never the LEAD pseudo token
  IN CASE mu[1] = "del" -> SubSeq(ts, 1, i - 1) \o SubSeq(ts, i + 1, n)
       [] mu[1] = "dup" -> SubSeq(ts, 1, i) \o SubSeq(ts, i, n)
       [] mu[1] = "sub" -> [ts EXCEPT ![i].lex = SubPool[(mu[3] % Len(SubPool)) + 1]]
       [] mu[1] = "swap" -> IF i < n THEN [ts EXCEPT ![i].lex = ts[i + 1].lex, ![i + 1].lex = ts[i].lex] ELSE ts
       [] mu[1] = "cut" -> SubSeq(ts, 1, i)       \* truncation after token i
       [] mu[1] = "junk" -> [ts EXCEPT ![i].lex = @ \o Junk[(mu[3] % Len(Junk)) + 1]]
RECURSIVE MutateAll(_, _, _)
MutateAll(ts, mus, k) == IF k > Len(mus) \/ Len(ts) < 3 THEN ts ELSE MutateAll(MutateOne(ts, mus[k]), mus, k + 1)

StyleOf(s) == [ws |-> s.ws, ows |-> s.ows, eol |-> s.eol, ind |-> s.ind, blank |-> s.blank, cmt |-> s.cmt, trail |-> s.trail, multi |-> s.multi, lead |-> s.lead, fin |-> s.fin,
               cind |-> IF "cind" \in DOMAIN s THEN s.cind ELSE 1, pad |-> IF "pad" \in DOMAIN s THEN s.pad ELSE 0]

\* a document whose canonical one-line rendering of a restriction list is longer than 64 KiB although (with style multi) none of its own lines is
WideDoc ==
  LET long(i) == "team_" \o Dbl("x", 10) \o "_" \o ToString(i)
  IN [header |-> "model", schema |-> "1.1", module |-> "",
      types |-> << [name |-> "user", ext |-> FALSE, rels |-> <<>>],
                   [name |-> "doc", ext |-> FALSE,
                    rels |-> << [name |-> "a", rw |-> [k |-> "union", ch |-> << [k |-> "this"], [k |-> "cu", rel |-> "b"] >>], restr |-> <<Ty("user")>> \o [i \in 1..90 |-> Us(long(i), "member")]],
                                [name |-> "b", rw |-> [k |-> "this"], restr |-> <<Ty("user")>>],
                                [name |-> "c", rw |-> [k |-> "cu", rel |-> "b"], restr |-> <<>>] >>] >>,
      conds |-> <<>>]

Init == ji \in 1..NumJobs /\ job = <<>>
Load == job = <<>> /\ job' = JobAt(ji) /\ UNCHANGED ji
\* two steps: the rendering is kept in the state so that it is evaluated once (TLC re-evaluates LET definitions at every
\* reference from inside a constructor), then printed
Layout == /\ job # <<>> /\ "R" \notin DOMAIN job
          /\ LET D0 == IF "special" \in DOMAIN job THEN SpecialDoc(job.special) ELSE IF "kw" \in DOMAIN job THEN KwDoc(job.kw[1], job.kw[2]) ELSE IF "wide" \in DOMAIN job THEN WideDoc ELSE IF "dot" \in DOMAIN job THEN DotDoc(job.dot) ELSE DocAt(job.doc)
                 N == Names(job.doc % 3)
                 V == IF job.viol = 0 THEN [viol |-> "", tag |-> <<>>, doc |-> D0] ELSE Violate(D0, job.viol, job.vsite, N)
                 ts == IF "mut" \in DOMAIN job THEN MutateAll(Tokens(V.doc), job.mut, 1) ELSE Tokens(V.doc)
             IN job' = [x \in DOMAIN job \cup {"V", "ts", "R"} |->
                          CASE x = "V" -> V [] x = "ts" -> ts [] x = "R" -> Render(ts, StyleOf(job.style), Overrides(ts, job.ov)) [] OTHER -> job[x]]
          /\ UNCHANGED ji
Emit == /\ job # <<>> /\ "R" \in DOMAIN job /\ "done" \notin DOMAIN job
        /\ LET V == job.V
               D == V.doc
               ts == job.ts
               R == job.R
           IN PrintT(ToJson([rec |-> "layout", id |-> job.id, text |-> R.text, valid |-> job.viol = 0 /\ "mut" \notin DOMAIN job, viol |-> V.viol,
                             \* not a sentence for certain: a violation of the catalogue, or a junk character outside strings and comments
                             mustreject |-> job.viol # 0 \/ ("mut" \in DOMAIN job /\ Len(job.mut) = 1 /\ job.mut[1][1] = "junk"),
                             modular |-> D.header = "module", m |-> IF job.viol = 0 THEN ModelOf(D) ELSE <<>>,
                             tagged |-> Tagged(ts, R.pos), errtag |-> V.tag, nsites |-> Cardinality(Sites(ts)),
                             \* every lexeme with its position (the lexer's token trace is validated against it)
                             lexemes |-> [i \in 1..Len(ts) |-> <<ts[i].lex, R.pos[i][1], R.pos[i][2]>>]]))
        /\ job' = [done |-> TRUE, R |-> <<>>] /\ UNCHANGED ji
Next == Load \/ Layout \/ Emit
Spec == Init /\ [][Next]_vars
=============================================================================
