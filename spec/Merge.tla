-------------------------------- MODULE Merge --------------------------------
(***************************************************************************)
(* Module merger: pkg/go/transformer/module-to-model.go                    *)
(* (TransformModuleFilesToModel) - properties C07, C12 and the merge half  *)
(* of C16.                                                                 *)
(*                                                                         *)
(* An abstract file is [name, header, decls, conds]:                       *)
(*   header  "" = a `model` file, "#" = a file of comment and blank lines  *)
(*           only (no header: it does not parse), otherwise the module name *)
(*   decls   << [kind \in {"type","ext"}, name, rels : << relation >>] >>  *)
(*   conds   << condition name >>                                          *)
(* Every relation/condition body carries the index of the file that wrote  *)
(* it (restriction type "k<i>", expression "x < <i>"), so that "nothing    *)
(* lost, nothing invented, rewrites unchanged" can be observed.            *)
(*                                                                         *)
(* Ideal : ConflictFree(files), MergedModel(files), Conflicts(files)       *)
(* Impl  : the two loops of the Go function as a state machine; the three  *)
(*         places where the code ranges over a Go map are explicit: with   *)
(*         "MapOrder" in Devs the next key is any remaining one (code      *)
(*         before the D6 fix), otherwise the order the fixed code uses.    *)
(***************************************************************************)
EXTENDS Integers, Sequences, FiniteSets, TLC, Json

CONSTANTS SetAt(_),  \* SetAt(i) = the i-th input [id, files]   (an operator, so that TLC never builds the whole universe at once)
          NumSets,   \* number of inputs
          Devs

VARIABLES gi, inp, pc, fi, remC, remF, curF, ti, remR, types, raw, ext, conds, errs
vars == <<gi, inp, pc, fi, remC, remF, curF, ti, remR, types, raw, ext, conds, errs>>

Range(s) == { s[i] : i \in 1..Len(s) }
\* the names of the universes in the order Go's sort puts them (byte order: upper case before lower case)
NameSeq == <<"C", "R", "S", "a", "b", "c", "d", "e", "r", "s", "t", "tx", "u", "v", "w", "x", "y", "z">>
Rank(n) == CHOOSE i \in 1..Len(NameSeq) : NameSeq[i] = n
MinByRank(S) == CHOOSE x \in S : \A y \in S : Rank(x) <= Rank(y)

Files == inp.files
F == Files[fi]
Modular(f) == f.header # ""
FileIdx(fs, name) == CHOOSE i \in 1..Len(fs) : fs[i].name = name

(***************************************************************************)
(* Rendering (canonical layout) with the line of every declaration         *)
(***************************************************************************)
\* two layouts: tight (as the printer writes) and loose (f.loose: blanks before ':' and '(', several blanks after keywords,
\* a comment line after the header and a blank line before every declaration) - the line lookups must cope with both
Loose(f) == "loose" \in DOMAIN f /\ f.loose
Gap(f) == IF Loose(f) THEN "   " ELSE " "
\* f.pad: the comment line of the loose layout is longer than 64 KiB (line readers with a fixed buffer give up there)
RECURSIVE Dbl(_, _)
Dbl(x, n) == IF n = 0 THEN x ELSE Dbl(x \o x, n - 1)
Pad(f) == IF "pad" \in DOMAIN f /\ f.pad THEN Dbl(" generated banner", 12) ELSE ""
\* line terminator of the file: "\n" or "\r\n" (f.eol); the line of a declaration is the same under both
Eol(f) == IF "eol" \in DOMAIN f THEN f.eol ELSE "\n"
\* f.crc: every declaration (type, extend type, define, condition) stands behind a comment that a carriage return on its own ends -
\* a line break for the lexer, no new line for positions: the declaration is on the line the comment begins
Crc(f) == "crc" \in DOMAIN f /\ f.crc
CrC(f, txt) == IF Crc(f) THEN "# " \o txt \o "\r" ELSE ""
RECURSIVE RelLines(_, _, _, _)
\* f.cont: the type restriction of the FIRST relation of every declaration continues on a second line, and that line begins with a
\* restriction on a type that is called `type` (a keyword the grammar admits as a name): it reads like a declaration, it is none
Cont(f) == "cont" \in DOMAIN f /\ f.cont
\* (the second restriction names the relation itself: metadata that ends up under another relation of the same block shows)
RelLines(f, rels, i, k) == IF i > Len(rels) THEN "" ELSE "    " \o (IF Crc(f) THEN "# define zz\r    " ELSE "") \o "define" \o Gap(f) \o rels[i] \o (IF Loose(f) THEN " :" ELSE ":") \o " [k" \o ToString(k) \o ", own_" \o rels[i]
                             \o (IF Cont(f) /\ i = 1 THEN "," \o Eol(f) \o "      type with kc]" ELSE "]") \o Eol(f) \o RelLines(f, rels, i + 1, k)
DeclText(f, d, k) == (IF Loose(f) THEN Eol(f) ELSE "")
                     \o CrC(f, "type zz") \o (IF d.kind = "ext" THEN "extend" \o Gap(f) \o "type" \o Gap(f) ELSE "type" \o Gap(f)) \o d.name \o Eol(f)
                     \o (IF Len(d.rels) > 0 THEN "  relations" \o Eol(f) \o RelLines(f, d.rels, 1, k) ELSE "")
DeclLen(f, d) == (IF Loose(f) THEN 1 ELSE 0) + 1 + (IF Len(d.rels) > 0 THEN 1 + Len(d.rels) + (IF Cont(f) THEN 1 ELSE 0) ELSE 0)
\* f.lure: the body of every condition begins with a line that reads like the header of the condition declared next (CEL text is not
\* checked by the DSL parser): it looks like a declaration, it is none
Lure(f) == "lure" \in DOMAIN f /\ f.lure
\* f.brace: the body of every condition holds an opening brace inside a string literal (the body ends at the first `}`, there is no nesting)
Brace(f) == "brace" \in DOMAIN f /\ f.brace
\* f.plain: the condition bodies do not carry the number of the file (two files of one module that declare the SAME condition,
\* word for word, still declare it twice)
PlainBody(f) == "plain" \in DOMAIN f /\ f.plain
CondText(f, c, k, next) == (IF Loose(f) THEN Eol(f) ELSE "") \o CrC(f, "k") \o "condition" \o Gap(f) \o c \o (IF Loose(f) THEN " (x: int) {" ELSE "(x: int) {") \o Eol(f)
                           \o (IF Lure(f) THEN "  condition " \o next \o " (x) ||" \o Eol(f) ELSE "")
                           \o (IF Brace(f) THEN "  \"{\" != \"\" &&" \o Eol(f) ELSE "")
                           \o "  x < " \o (IF PlainBody(f) THEN "100" ELSE ToString(k)) \o Eol(f) \o "}" \o Eol(f)
CondLen(f) == (IF Loose(f) THEN 4 ELSE 3) + (IF Lure(f) THEN 1 ELSE 0) + (IF Brace(f) THEN 1 ELSE 0)
RECURSIVE DeclsText(_, _, _, _)
DeclsText(f, ds, i, k) == IF i > Len(ds) THEN "" ELSE DeclText(f, ds[i], k) \o DeclsText(f, ds, i + 1, k)
RECURSIVE CondsText(_, _, _, _)
CondsText(f, cs, i, k) == IF i > Len(cs) THEN "" ELSE CondText(f, cs[i], k, cs[IF i < Len(cs) THEN i + 1 ELSE i]) \o CondsText(f, cs, i + 1, k)
HeaderText(f) == IF f.header = "#" THEN "# nothing declared here" \o Eol(f) \o "  " \o Eol(f) \o "  # (yet)" \o Eol(f) ELSE
                 (IF Modular(f) THEN "module " \o f.header \o Eol(f) ELSE "model" \o Eol(f) \o "  schema 1.1" \o Eol(f)) \o (IF Loose(f) THEN "# declarations of " \o f.name \o Pad(f) \o Eol(f) ELSE "")
HeaderLen(f) == (IF Modular(f) THEN 1 ELSE 2) + (IF Loose(f) THEN 1 ELSE 0)
Text(f, k) == HeaderText(f) \o DeclsText(f, f.decls, 1, k) \o CondsText(f, f.conds, 1, k)
RECURSIVE SumLen(_, _, _)
SumLen(f, ds, n) == IF n = 0 THEN 0 ELSE DeclLen(f, ds[n]) + SumLen(f, ds, n - 1)
LooseOff(f) == IF Loose(f) THEN 1 ELSE 0                                                         \* the blank line in front of a declaration
DeclLine(f, i) == HeaderLen(f) + SumLen(f, f.decls, i - 1) + LooseOff(f)                          \* zero-based line of `type x` / `extend type x`
RelLine(f, i, j) == DeclLine(f, i) + 1 + j + (IF Cont(f) /\ j > 1 THEN 1 ELSE 0)                                                   \* ... of the j-th `define`
CondLine(f, j) == HeaderLen(f) + SumLen(f, f.decls, Len(f.decls)) + CondLen(f) * (j - 1) + LooseOff(f)   \* ... of the j-th `condition`
\* every declaration of a file with its line: <<"type"|"ext", name, "", line>>, <<"rel", type, relation, line>> (relations of extensions), <<"cond", name, "", line>>
LineTable(f) == { <<f.decls[i].kind, f.decls[i].name, "", DeclLine(f, i)>> : i \in 1..Len(f.decls) }
           \cup UNION { { <<"rel", f.decls[i].name, f.decls[i].rels[j], RelLine(f, i, j)>> : j \in 1..Len(f.decls[i].rels) } : i \in { k \in 1..Len(f.decls) : f.decls[k].kind = "ext" } }
           \cup { <<"cond", f.conds[j], "", CondLine(f, j)>> : j \in 1..Len(f.conds) }

(***************************************************************************)
(* What parsing one file yields (listener of dsltojson.go)                 *)
(***************************************************************************)
ExtNames(f) == { f.decls[i].name : i \in { j \in 1..Len(f.decls) : f.decls[j].kind = "ext" } }
\* syntax errors the listener raises: extend outside a module, a type extended twice in one file
ParseError(f) == \/ f.header = "#"
                 \/ (~Modular(f) /\ ExtNames(f) # {})
                 \/ \E i, j \in 1..Len(f.decls) : i < j /\ f.decls[i].kind = "ext" /\ f.decls[j].kind = "ext" /\ f.decls[i].name = f.decls[j].name
MetaNil(f, d) == ~Modular(f) /\ Len(d.rels) = 0                  \* metadata is nil exactly for a non-modular type without relations
TypeDefOf(f, d) == [name |-> d.name, module |-> f.header, file |-> "", kind |-> d.kind,
                    rels |-> [r \in Range(d.rels) |-> [module |-> IF d.kind = "ext" /\ Modular(f) THEN f.header ELSE "", file |-> "", src |-> f.name]],
                    metanil |-> MetaNil(f, d)]

(***************************************************************************)
(* Impl                                                                    *)
(***************************************************************************)
Err(kind, name, file) == <<kind, name, file>>
RECURSIVE TypeLoop(_, _, _)
TypeLoop(f, i, st) ==
  IF i > Len(f.decls) THEN st
  ELSE LET d == f.decls[i]
           td == TypeDefOf(f, d)
           \* the extension map is keyed by TYPE NAME, so `type w` and `extend type w` in one file both count as extensions
           extension == IF "ExtKeyedByTypeName" \in Devs THEN d.name \in ExtNames(f) ELSE d.kind = "ext"
       IN IF d.name \in Range(st.types) /\ ~extension
          THEN TypeLoop(f, i + 1, [st EXCEPT !.errs = Append(@, Err("duptype", d.name, f.name))])
          ELSE IF extension
          THEN TypeLoop(f, i + 1, [st EXCEPT !.ext = [x \in DOMAIN @ \cup {f.name} |-> IF x \in DOMAIN @ THEN (IF x = f.name THEN Append(@[x], td) ELSE @[x]) ELSE <<td>>]])
          ELSE LET s1 == [st EXCEPT !.types = Append(@, d.name)] IN
               IF td.metanil
               THEN TypeLoop(f, i + 1, [s1 EXCEPT !.errs = Append(@, Err("notmodule", "", IF "NotModuleWithoutFile" \in Devs THEN "" ELSE f.name))])
               ELSE TypeLoop(f, i + 1, [s1 EXCEPT !.raw = Append(@, [td EXCEPT !.file = f.name])])

EmptyFn == [x \in {} |-> 0]
\* the input is loaded by the first step, not in Init: TLC computes initial states on one thread, steps on all workers
Init == /\ gi \in 1..NumSets /\ inp = <<>> /\ pc = "load" /\ fi = 1 /\ remC = {} /\ remF = {} /\ curF = "" /\ ti = 0 /\ remR = {}
        /\ types = <<>> /\ raw = <<>> /\ ext = EmptyFn /\ conds = EmptyFn /\ errs = <<>>

\* which element of a ranged Go map comes next
Pick(S) == IF "MapOrder" \in Devs THEN S ELSE {MinByRank(S)}
PickFile(S) == IF "MapOrder" \in Devs THEN S
               ELSE { Files[CHOOSE i \in { FileIdx(Files, n) : n \in S } : \A j \in { FileIdx(Files, n) : n \in S } : i <= j].name }   \* file-list order

DoFile == /\ pc = "file" /\ fi <= Len(Files)
          /\ IF ParseError(F)
             THEN /\ errs' = Append(errs, Err("syntax", "", "")) /\ remC' = {} /\ UNCHANGED <<types, raw, ext>>
             ELSE LET st == TypeLoop(F, 1, [types |-> types, raw |-> raw, ext |-> ext, errs |-> errs])
                  IN types' = st.types /\ raw' = st.raw /\ ext' = st.ext /\ errs' = st.errs /\ remC' = Range(F.conds)
          /\ pc' = "conds"
          /\ UNCHANGED <<gi, inp, fi, remF, curF, ti, remR, conds>>
DoCond == /\ pc = "conds" /\ remC # {}
          /\ \E c \in Pick(remC) :
               /\ remC' = remC \ {c}
               /\ IF c \in DOMAIN conds
                  THEN errs' = Append(errs, Err("dupcond", c, F.name)) /\ UNCHANGED <<conds, pc>>
                  ELSE IF ~Modular(F)
                  THEN IF "CondMetadataNil" \in Devs THEN pc' = "panic" /\ UNCHANGED <<conds, errs>>            \* nil Metadata dereference (before the D4 fix)
                       ELSE errs' = Append(errs, Err("notmodule", "", F.name)) /\ UNCHANGED <<conds, pc>>
                  ELSE conds' = [x \in DOMAIN conds \cup {c} |-> IF x = c THEN <<F.header, F.name>> ELSE conds[x]] /\ UNCHANGED <<errs, pc>>
          /\ UNCHANGED <<gi, inp, fi, remF, curF, ti, remR, types, raw, ext>>
EndConds == /\ pc = "conds" /\ remC = {}
            /\ IF fi < Len(Files) THEN fi' = fi + 1 /\ pc' = "file" /\ UNCHANGED remF
               ELSE fi' = fi /\ pc' = "extfile" /\ remF' = DOMAIN ext
            /\ UNCHANGED <<gi, inp, remC, curF, ti, remR, types, raw, ext, conds, errs>>
PickExtFile == /\ pc = "extfile" /\ remF # {}
               /\ \E f \in PickFile(remF) : curF' = f /\ remF' = remF \ {f}
               /\ ti' = 1 /\ pc' = "exttype"
               /\ UNCHANGED <<gi, inp, fi, remC, remR, types, raw, ext, conds, errs>>
RawIdx(name) == IF \E i \in 1..Len(raw) : raw[i].name = name
                THEN CHOOSE i \in 1..Len(raw) : raw[i].name = name /\ \A j \in 1..(i-1) : raw[j].name # name ELSE 0
ExtType == /\ pc = "exttype" /\ ti <= Len(ext[curF])
           /\ LET td == ext[curF][ti]
                  idx == RawIdx(td.name)
              IN IF idx = 0
                 THEN errs' = Append(errs, Err("noext", td.name, curF)) /\ ti' = ti + 1 /\ UNCHANGED <<raw, remR, pc>>
                 ELSE IF DOMAIN raw[idx].rels = {}
                 THEN /\ raw' = [raw EXCEPT ![idx].rels = [r \in DOMAIN td.rels |-> [td.rels[r] EXCEPT !.file = curF]]]
                      /\ ti' = ti + 1 /\ UNCHANGED <<errs, remR, pc>>
                 ELSE remR' = DOMAIN td.rels /\ pc' = "extrels" /\ UNCHANGED <<raw, errs, ti>>
           /\ UNCHANGED <<gi, inp, fi, remC, remF, curF, types, ext, conds>>
ExtRel == /\ pc = "extrels" /\ remR # {}
          /\ LET td == ext[curF][ti]
                 idx == RawIdx(td.name)
                 \* existingRelationNames is computed once per extension typedef; relation names are unique within the
                 \* typedef, so "r existed before this typedef" = "r is in the type now"
                 existing == DOMAIN raw[idx].rels
             IN \E r \in Pick(remR) :
                  /\ remR' = remR \ {r}
                  /\ IF r \in existing
                     THEN errs' = Append(errs, Err("duprel", td.name \o "#" \o r, curF)) /\ UNCHANGED raw
                     ELSE raw' = [raw EXCEPT ![idx].rels = [x \in DOMAIN @ \cup {r} |-> IF x = r THEN [td.rels[r] EXCEPT !.file = curF] ELSE @[x]]]
                          /\ UNCHANGED errs
          /\ UNCHANGED <<gi, inp, pc, fi, remC, remF, curF, ti, types, ext, conds>>
EndExtRels == /\ pc = "extrels" /\ remR = {} /\ ti' = ti + 1 /\ pc' = "exttype"
              /\ UNCHANGED <<gi, inp, fi, remC, remF, curF, remR, types, raw, ext, conds, errs>>
EndExtType == /\ pc = "exttype" /\ ti > Len(ext[curF]) /\ pc' = "extfile"
              /\ UNCHANGED <<gi, inp, fi, remC, remF, curF, ti, remR, types, raw, ext, conds, errs>>

ImplResult == IF pc = "panic" THEN "panic" ELSE IF Len(errs) > 0 THEN "err" ELSE "ok"
ImplOut == [res |-> ImplResult, errs |-> errs,
            types |-> [i \in 1..Len(raw) |-> <<raw[i].name, raw[i].module, raw[i].file>>],
            rels |-> UNION { { <<raw[i].name, r, raw[i].rels[r].module, raw[i].rels[r].file, raw[i].rels[r].src>> : r \in DOMAIN raw[i].rels } : i \in 1..Len(raw) },
            conds |-> { <<c, conds[c][1], conds[c][2]>> : c \in DOMAIN conds }]

(***************************************************************************)
(* Ideal                                                                   *)
(***************************************************************************)
\* all declarations as a set of [fi, di, kind, name, rels]
AllDecls(fs) == UNION { { [fi |-> i, di |-> j, kind |-> fs[i].decls[j].kind, name |-> fs[i].decls[j].name, rels |-> fs[i].decls[j].rels] : j \in 1..Len(fs[i].decls) } : i \in 1..Len(fs) }
Before(a, b) == a.fi < b.fi \/ (a.fi = b.fi /\ a.di < b.di)
TypeDecls(fs) == { d \in AllDecls(fs) : d.kind = "type" }
ExtDecls(fs) == { d \in AllDecls(fs) : d.kind = "ext" }
AllConds(fs) == UNION { { [fi |-> i, ci |-> j, name |-> fs[i].conds[j]] : j \in 1..Len(fs[i].conds) } : i \in 1..Len(fs) }
\* conflicts as a set of <<kind, name, offending file, zero-based line of the conflicting declaration in that file>>
Conflicts(fs0) ==
  LET fs == [i \in 1..Len(fs0) |-> IF ParseError(fs0[i]) THEN [fs0[i] EXCEPT !.decls = <<>>, !.conds = <<>>] ELSE fs0[i]] IN    \* an unparseable file declares nothing
       { <<"notmodule", "", fs[i].name, 0>> : i \in { k \in 1..Len(fs) : ~Modular(fs[k]) } }
  \cup { <<"syntax", "", fs0[i].name, 0>> : i \in { k \in 1..Len(fs0) : Modular(fs0[k]) /\ ParseError(fs0[k]) } }
  \cup { <<"duptype", d.name, fs[d.fi].name, DeclLine(fs[d.fi], d.di)>> : d \in { x \in TypeDecls(fs) : \E y \in TypeDecls(fs) : y.name = x.name /\ Before(y, x) } }
  \cup { <<"dupcond", c.name, fs[c.fi].name, CondLine(fs[c.fi], c.ci)>> : c \in { x \in AllConds(fs) : \E y \in AllConds(fs) : y.name = x.name /\ (y.fi < x.fi \/ (y.fi = x.fi /\ y.ci < x.ci)) } }
  \cup { <<"noext", d.name, fs[d.fi].name, DeclLine(fs[d.fi], d.di)>> : d \in { x \in ExtDecls(fs) : ~\E y \in TypeDecls(fs) : y.name = x.name } }
  \cup UNION { { <<"duprel", d.name \o "#" \o d.rels[j], fs[d.fi].name, RelLine(fs[d.fi], d.di, j)>> :
                   j \in { k \in 1..Len(d.rels) : \E y \in AllDecls(fs) : y.name = d.name /\ (y.kind = "type" \/ Before(y, d)) /\ y # d /\ d.rels[k] \in Range(y.rels) } }
               : d \in { x \in ExtDecls(fs) : \E y \in TypeDecls(fs) : y.name = x.name } }
ConflictFree(fs) == Conflicts(fs) = {}
\* Files that hold a conflict whatever one thinks of conflicts among the rejected declarations themselves: a later declaration of a
\* type / condition name, an extension of a type nobody declares, an extension relation that the FIRST declaration of the type or an
\* earlier extension already has. (Conflicts counts a clash with the relations of a duplicate - itself rejected - declaration as well;
\* whether that one is reported is not fixed by the statement.) Every such file must be named by one of the returned errors.
MustBeNamed(fs0) ==
  LET fs == [i \in 1..Len(fs0) |-> IF ParseError(fs0[i]) THEN [fs0[i] EXCEPT !.decls = <<>>, !.conds = <<>>] ELSE fs0[i]]
      first(x) == x.kind = "type" /\ ~\E y \in TypeDecls(fs) : y.name = x.name /\ Before(y, x)
  IN   { fs[d.fi].name : d \in { x \in TypeDecls(fs) : \E y \in TypeDecls(fs) : y.name = x.name /\ Before(y, x) } }
  \cup { fs[c.fi].name : c \in { x \in AllConds(fs) : \E y \in AllConds(fs) : y.name = x.name /\ (y.fi < x.fi \/ (y.fi = x.fi /\ y.ci < x.ci)) } }
  \cup { fs[d.fi].name : d \in { x \in ExtDecls(fs) : ~\E y \in TypeDecls(fs) : y.name = x.name } }
  \cup { fs[d.fi].name : d \in { x \in ExtDecls(fs) : \E y \in AllDecls(fs) : /\ y.name = x.name /\ y # x /\ (first(y) \/ (y.kind = "ext" /\ Before(y, x)))
                                                                              /\ Range(x.rels) \cap Range(y.rels) # {} } }
\* the attributed union: types in file/declaration order; relations of the declaring `type` unattributed, relations added by
\* an extension attributed to the extending module and file; conditions attributed to module and file
MergedModel(fs) ==
  LET tds == TypeDecls(fs)
      ord == { <<d.fi, d.di>> : d \in tds }
  IN [types |-> { <<d.name, fs[d.fi].header, fs[d.fi].name>> : d \in tds },
      typeorder |-> ord,
      rels |-> UNION { { <<d.name, d.rels[j], IF d.kind = "ext" THEN fs[d.fi].header ELSE "", IF d.kind = "ext" THEN fs[d.fi].name ELSE "", fs[d.fi].name>> : j \in 1..Len(d.rels) } : d \in AllDecls(fs) },
      conds |-> { <<c.name, fs[c.fi].header, fs[c.fi].name>> : c \in AllConds(fs) }]
RECURSIVE SeqOfTypes(_, _)
SeqOfTypes(fs, i) == IF i > Len(fs) THEN <<>> ELSE
   SelectSeq([j \in 1..Len(fs[i].decls) |-> IF fs[i].decls[j].kind = "type" THEN <<fs[i].decls[j].name, fs[i].header, fs[i].name>> ELSE <<>>], LAMBDA x : x # <<>>) \o SeqOfTypes(fs, i + 1)

(***************************************************************************)
(* Output and properties                                                   *)
(***************************************************************************)
Finish == /\ pc = "extfile" /\ remF = {} /\ pc' = "done"
          /\ PrintT(ToJson([rec |-> "outcome", id |-> inp.id, out |-> ImplOut]))
          /\ UNCHANGED <<gi, inp, fi, remC, remF, curF, ti, remR, types, raw, ext, conds, errs>>
Panic == /\ pc = "panic" /\ pc' = "paniced"
         /\ PrintT(ToJson([rec |-> "outcome", id |-> inp.id, out |-> ImplOut]))
         /\ UNCHANGED <<gi, inp, fi, remC, remF, curF, ti, remR, types, raw, ext, conds, errs>>
\* one record per input with the Ideal layer and the rendered files (printed once, from the first step)
Load == /\ pc = "load" /\ inp' = SetAt(gi) /\ pc' = "announce"
        /\ UNCHANGED <<gi, fi, remC, remF, curF, ti, remR, types, raw, ext, conds, errs>>
Announce == /\ pc = "announce" /\ pc' = "file"
            /\ UNCHANGED <<gi, inp, fi, remC, remF, curF, ti, remR, types, raw, ext, conds, errs>>
            /\ PrintT(ToJson([rec |-> "input", id |-> inp.id, files |-> [i \in 1..Len(Files) |-> [name |-> Files[i].name, text |-> Text(Files[i], i), abs |-> Files[i], lines |-> LineTable(Files[i])]],
                              ideal |-> [ok |-> ConflictFree(Files), conflicts |-> Conflicts(Files), mustname |-> MustBeNamed(Files), model |-> MergedModel(Files), typeseq |-> SeqOfTypes(Files, 1)]]))
Next == \/ Load \/ Announce \/ DoFile \/ DoCond \/ EndConds \/ PickExtFile \/ ExtType \/ ExtRel \/ EndExtRels \/ EndExtType \/ Finish \/ Panic
Spec == Init /\ [][Next]_vars

Done == pc = "done"
\* C07 on the Impl layer: modulo the listed deviations D12 (a `model` file whose types have relations is accepted) and
\* D13 (`type w` + `extend type w` in one file) - both are class predicates over the input
HasModelFile == \E i \in 1..Len(Files) : ~Modular(Files[i])
HasTypeAndExtInOneFile == \E i \in 1..Len(Files) : \E a, b \in 1..Len(Files[i].decls) : Files[i].decls[a].kind = "type" /\ Files[i].decls[b].kind = "ext" /\ Files[i].decls[a].name = Files[i].decls[b].name
KnownClass == ("ModelFileAccepted" \in Devs /\ HasModelFile) \/ ("ExtKeyedByTypeName" \in Devs /\ HasTypeAndExtInOneFile)
MergeSucceedsIffConflictFree == Done => ((ImplResult = "ok") <=> ConflictFree(Files)) \/ KnownClass
NeverPanics == pc # "panic"
MergedIsAttributedUnion == Done /\ ImplResult = "ok" /\ ~KnownClass =>
                             LET m == MergedModel(Files) IN
                             /\ Range(ImplOut.types) = m.types /\ ImplOut.types = SeqOfTypes(Files, 1)
                             /\ ImplOut.rels = m.rels /\ ImplOut.conds = m.conds
\* every reported conflict names a file the Ideal layer counts as offending (syntax errors carry no file: they are not conflicts)
ErrorNamesOffendingFile == Done /\ ImplResult = "err" /\ ~KnownClass =>
                             \A e \in Range(errs) : e[1] = "syntax" \/ e[3] \in { c[3] : c \in Conflicts(Files) }
=============================================================================
