------------------------------ MODULE PlainGraph ------------------------------
(***************************************************************************)
(* The plain authorization-model graph: pkg/go/graph/graph_builder.go and  *)
(* graph.go (property C17).                                                *)
(*                                                                         *)
(* PG(M) mirrors parseModel -> checkRewrite -> parseThis / parseComputed / *)
(* parseTupleToUserset: nodes in creation order (gonum issues ids 0,1,2,.. *)
(* in that order, so node number = id + 1 and an operator node - whose     *)
(* real label is a random ULID - is named "#<id>"), lines in creation      *)
(* order, drawn from user types towards relations.                         *)
(* The API is an automaton over (graph, direction):                        *)
(*   Reverse, PathQuery(a, b), Lookup(label), Cycles                       *)
(* TLC walks call sequences and checks ReverseInvolution, PathDuality,     *)
(* LookupExact; each visited state prints what the real object must show.  *)
(***************************************************************************)
EXTENDS Integers, Sequences, FiniteSets, TLC, Json

CONSTANTS ModelAt(_), NumModels, MaxCalls

\* reach / rreach: reachability (reflexive) of pg and of the flipped pg, computed once per state into variables
\* (TLC re-evaluates LET-bound values inside quantifiers; variables are plain lookups)
VARIABLES mi, M, pg, dir, calls, seen, reach, rreach
vars == <<mi, M, pg, dir, calls, seen, reach, rreach>>

Range(s) == { s[i] : i \in 1..Len(s) }
TypeDefs(m) == Range(m.types)
HasRelM(m, t, r) == \E d \in TypeDefs(m) : d.name = t /\ \E x \in Range(d.rels) : x.name = r       \* typeAndRelationExists
RDM(m, t, r) == LET d == CHOOSE d \in TypeDefs(m) : d.name = t /\ \E x \in Range(d.rels) : x.name = r IN CHOOSE x \in Range(d.rels) : x.name = r
HasRelInType(td, r) == \E x \in Range(td.rels) : x.name = r
RelOf(td, r) == CHOOSE x \in Range(td.rels) : x.name = r
OpLabel(k) == CASE k = "union" -> "union" [] k = "inter" -> "intersection" [] k = "diff" -> "exclusion"

(***************************************************************************)
(* builder state st = [nodes : << [id, nt, label] >>, lines : << [from, to, kind, ts, conds] >>]  (from / to are node ids) *)
(***************************************************************************)
FindNode(st, id) == IF \E i \in 1..Len(st.nodes) : st.nodes[i].id = id THEN CHOOSE i \in 1..Len(st.nodes) : st.nodes[i].id = id ELSE 0
GetOrAdd(st, id, nt, label) == IF FindNode(st, id) # 0 THEN st ELSE [st EXCEPT !.nodes = Append(@, [id |-> id, nt |-> nt, label |-> label])]
NtOf(st, id) == st.nodes[FindNode(st, id)].nt
AddLine(st, from, to, kind, ts, conds) == [st EXCEPT !.lines = Append(@, [from |-> from, to |-> to, kind |-> kind, ts |-> ts, conds |-> conds])]
SameLine(l, from, to, kind, ts) == l.from = from /\ l.to = to /\ l.kind = kind /\ l.ts = ts
HasLine(st, from, to, kind, ts) == \E i \in 1..Len(st.lines) : SameLine(st.lines[i], from, to, kind, ts)
\* upsertEdge: an existing line of that kind gets the condition appended - compared RAW (an unconditioned duplicate appends "")
Upsert(st, from, to, kind, ts, cond) ==
  IF HasLine(st, from, to, kind, ts) THEN
    LET i == CHOOSE j \in 1..Len(st.lines) : SameLine(st.lines[j], from, to, kind, ts) /\ \A k \in 1..(j-1) : ~SameLine(st.lines[k], from, to, kind, ts) IN
    IF cond \in Range(st.lines[i].conds) THEN st ELSE [st EXCEPT !.lines[i].conds = Append(@, cond)]
  ELSE AddLine(st, from, to, kind, ts, <<IF cond = "" THEN "none" ELSE cond>>)

RECURSIVE ThisFold(_, _, _, _)
ThisFold(st, p, restr, i) ==
  IF i > Len(restr) THEN st
  ELSE LET x == restr[i]
           tgt == CASE x.kind = "type" -> [id |-> x.t, nt |-> "type"]
                    [] x.kind = "wild" -> [id |-> x.t \o ":*", nt |-> "wild"]
                    [] x.kind = "uset" -> [id |-> x.t \o "#" \o x.rel, nt |-> "rel"]
           s1 == GetOrAdd(st, tgt.id, tgt.nt, tgt.id)
       IN ThisFold(Upsert(s1, tgt.id, p, "direct", "", x.cond), p, restr, i + 1)

RECURSIVE TTUFold(_, _, _, _, _, _, _)
TTUFold(m, st, p, t, ttu, restr, i) ==
  IF i > Len(restr) THEN st
  ELSE LET x == restr[i]
           src == x.t \o "#" \o ttu.rel
           lab == t \o "#" \o ttu.ts
       IN IF ~HasRelM(m, x.t, ttu.rel) THEN TTUFold(m, st, p, t, ttu, restr, i + 1)       \* parent type lacks the relation: skipped
          ELSE LET s1 == GetOrAdd(st, src, "rel", src) IN
               TTUFold(m, IF HasLine(s1, src, p, "ttu", lab) THEN s1 ELSE Upsert(s1, src, p, "ttu", lab, x.cond), p, t, ttu, restr, i + 1)

RECURSIVE Rw(_, _, _, _, _, _)
RECURSIVE RwChildren(_, _, _, _, _, _, _)
Rw(m, st, p, td, r, tree) ==
  CASE tree.k = "this" -> ThisFold(st, p, IF HasRelInType(td, r) THEN RelOf(td, r).restr ELSE <<>>, 1)
    [] tree.k = "cu" ->
         LET src == td.name \o "#" \o tree.rel
             s1 == GetOrAdd(st, src, "rel", src)
             kind == IF NtOf(s1, p) = "rel" THEN "computed" ELSE "rewrite"
         IN AddLine(s1, src, p, kind, "", <<"none">>)
    [] tree.k = "ttu" -> TTUFold(m, st, p, td.name, tree, IF HasRelInType(td, tree.ts) THEN RelOf(td, tree.ts).restr ELSE <<>>, 1)
    [] OTHER ->
         LET op == "#" \o ToString(Len(st.nodes))                  \* the id gonum will issue
             s1 == GetOrAdd(st, op, "op", OpLabel(tree.k))
             s2 == AddLine(s1, op, p, "rewrite", "", <<"none">>)
         IN RwChildren(m, s2, op, td, r, tree.ch, 1)
RwChildren(m, st, op, td, r, ch, i) == IF i > Len(ch) THEN st ELSE RwChildren(m, Rw(m, st, op, td, r, ch[i]), op, td, r, ch, i + 1)

RECURSIVE RelFold(_, _, _, _)
RelFold(m, st, td, i) ==
  IF i > Len(td.rels) THEN st
  ELSE LET id == td.name \o "#" \o td.rels[i].name
       IN RelFold(m, Rw(m, GetOrAdd(st, id, "rel", id), id, td, td.rels[i].name, td.rels[i].rw), td, i + 1)
RECURSIVE TypeFold(_, _, _)
TypeFold(m, st, i) == IF i > Len(m.types) THEN st ELSE TypeFold(m, RelFold(m, GetOrAdd(st, m.types[i].name, "type", m.types[i].name), m.types[i], 1), i + 1)
PG(m) == TypeFold(m, [nodes |-> <<>>, lines |-> <<>>], 1)

(***************************************************************************)
(* queries                                                                 *)
(***************************************************************************)
Ids(g) == { g.nodes[i].id : i \in 1..Len(g.nodes) }
\* adjacency is computed once per graph and handed to the closure (TLC re-evaluates operators at every use)
Adj(g, kinds) == [n \in Ids(g) |-> { g.lines[i].to : i \in { j \in 1..Len(g.lines) : g.lines[j].from = n /\ g.lines[j].kind \in kinds } }]
AllKinds == {"direct", "rewrite", "ttu", "computed"}
RECURSIVE Closure(_, _, _)
Closure(adj, S, k) == LET S2 == S \cup UNION { adj[x] : x \in S } IN IF S2 = S \/ k = 0 THEN S2 ELSE Closure(adj, S2, k - 1)
ReachStarAll(g) == LET adj == Adj(g, AllKinds) IN [a \in Ids(g) |-> Closure(adj, {a}, Len(g.nodes))]            \* reflexive
ReachPlusAll(g, kinds) == LET adj == Adj(g, kinds) IN [a \in Ids(g) |-> Closure(adj, adj[a], Len(g.nodes))]
Flip(g) == [g EXCEPT !.lines = [i \in DOMAIN g.lines |-> [g.lines[i] EXCEPT !.from = g.lines[i].to, !.to = g.lines[i].from]]]
LineBag(g) == { <<l, Cardinality({ i \in 1..Len(g.lines) : g.lines[i] = l })>> : l \in Range(g.lines) }        \* lines as a multiset
PublicLabels(g) == { g.nodes[i].id : i \in { j \in 1..Len(g.nodes) : g.nodes[j].nt # "op" } }
Acyclic(g) == LET R == ReachPlusAll(g, AllKinds) IN \A n \in Ids(g) : n \notin R[n]
\* two or more relations on a cycle of pure computed usersets
PureComputedCycle(g) == LET R == ReachPlusAll(g, {"computed"}) IN \E a, b \in Ids(g) : a # b /\ b \in R[a] /\ a \in R[b]

(***************************************************************************)
(* the API automaton                                                       *)
(***************************************************************************)
Snapshot == [rec |-> "state", id |-> M.id, calls |-> calls, dir |-> dir,
             nodes |-> [i \in 1..Len(pg.nodes) |-> [nid |-> i - 1, id |-> pg.nodes[i].id, nt |-> pg.nodes[i].nt, label |-> pg.nodes[i].label]],
             lines |-> LineBag(pg),
             paths |-> { <<a, b>> \in PublicLabels(pg) \X PublicLabels(pg) : b \in reach[a] },
             labels |-> PublicLabels(pg), acyclic |-> Acyclic(pg), purecycle |-> PureComputedCycle(pg)]
Init == mi \in 1..NumModels /\ M = <<>> /\ pg = <<>> /\ dir = "none" /\ calls = <<>> /\ seen = TRUE /\ reach = <<>> /\ rreach = <<>>
Build == /\ M = <<>> /\ M' = ModelAt(mi) /\ pg' = PG(M'.m) /\ dir' = "list" /\ seen' = FALSE /\ UNCHANGED <<mi, calls>>
         /\ reach' = ReachStarAll(pg') /\ rreach' = ReachStarAll(Flip(pg'))
         /\ PrintT(ToJson([rec |-> "model", id |-> M'.id, m |-> M'.m]))
\* every state of the object is observed once: the snapshot is what the real graph must show at that point
Observe == /\ M # <<>> /\ ~seen /\ seen' = TRUE /\ PrintT(ToJson(Snapshot)) /\ UNCHANGED <<mi, M, pg, dir, calls, reach, rreach>>
Reverse == /\ M # <<>> /\ seen /\ Len(calls) < MaxCalls
           /\ pg' = Flip(pg) /\ dir' = (IF dir = "list" THEN "check" ELSE "list") /\ calls' = Append(calls, "reverse") /\ seen' = FALSE
           /\ reach' = ReachStarAll(pg') /\ rreach' = ReachStarAll(Flip(pg'))
           /\ UNCHANGED <<mi, M>>
Next == Build \/ Observe \/ Reverse
Spec == Init /\ [][Next]_vars

\* properties of the design
ReverseInvolution == M # <<>> => LineBag(Flip(Flip(pg))) = LineBag(pg) /\ Flip(Flip(pg)).nodes = pg.nodes
PathDuality == M # <<>> => \A a, b \in Ids(pg) : (b \in reach[a]) = (a \in rreach[b])
ReverseFlipsEveryLine == M # <<>> => Len(Flip(pg).lines) = Len(pg.lines) /\ \A i \in 1..Len(pg.lines) : Flip(pg).lines[i].from = pg.lines[i].to /\ Flip(pg).lines[i].to = pg.lines[i].from
DrawnFromUsersToRelations == M # <<>> /\ dir = "list" => \A i \in 1..Len(pg.lines) : pg.nodes[FindNode(pg, pg.lines[i].to)].nt \in {"rel", "op"}
PureCycleIsACycle == M # <<>> /\ PureComputedCycle(pg) => ~Acyclic(pg)
=============================================================================
