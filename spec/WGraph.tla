------------------------------- MODULE WGraph -------------------------------
(***************************************************************************)
(* Weighted authorization-model graph of openfga/language                  *)
(*   pkg/go/graph/weighted_graph_builder.go  (structure, Graph(M))         *)
(*   pkg/go/graph/weighted_graph.go          (AssignWeights DFS, Impl)     *)
(* and the declarative (Ideal) semantics the properties C04, C05, C06,     *)
(* C10, C11 demand.                                                        *)
(*                                                                         *)
(* Two layers (DESIGN.md 2.1):                                             *)
(*   Ideal : IdealOf(G)   - least fixpoints / reachability, no algorithm   *)
(*   Impl  : the PlusCal algorithm AssignWeights below, one procedure per  *)
(*           Go function, DFS root order (Go map iteration) as `with`.     *)
(* Inputs are abstract models (see harness/abs.go for the same shape):     *)
(*   M = [types |-> << [name, rels |-> << [name, rw, restr] >>] >>]        *)
(*   rw    = [k |-> "this"] | [k |-> "cu", rel] | [k |-> "ttu", rel, ts]   *)
(*         | [k |-> "union"|"inter"|"diff", ch |-> << rw >>]               *)
(*   restr = << [t, kind \in {"type","wild","uset"}, rel, cond] >>         *)
(* types and relations are sorted by name (the builder sorts them).        *)
(***************************************************************************)
EXTENDS Integers, Sequences, FiniteSets, TLC, Json

CONSTANTS Inputs,            \* sequence of [id, m, roots (optional: forced DFS root order)]
          Devs,              \* set of named deviations of the implementation that are switched on
          defaultInitValue

Inf == 1000000              \* stands for graph.Infinite (math.MaxInt32) on both sides of the binding

Range(s) == { s[i] : i \in 1..Len(s) }
Max(a, b) == IF a >= b THEN a ELSE b

(***************************************************************************)
(* 1. Graph(M): structure exactly as Build -> parseRewrite -> parseThis /  *)
(*    parseComputed / parseTupleToUserset create it.                       *)
(***************************************************************************)
TypeDefs(M) == Range(M.types)
HasType(M, t) == \E d \in TypeDefs(M) : d.name = t
TD(M, t) == CHOOSE d \in TypeDefs(M) : d.name = t
RelDefs(M, t) == IF HasType(M, t) THEN Range(TD(M, t).rels) ELSE {}
HasRel(M, t, r) == \E x \in RelDefs(M, t) : x.name = r          \* typeAndRelationExists
RD(M, t, r) == CHOOSE x \in RelDefs(M, t) : x.name = r
RelId(t, r) == t \o "#" \o r
OpLabel(k) == CASE k = "union" -> "union" [] k = "inter" -> "intersection" [] k = "diff" -> "exclusion"

AddNode(st, id, nt, label) ==
  IF id \in DOMAIN st.nodes THEN st
  ELSE [st EXCEPT !.nodes = [x \in DOMAIN st.nodes \cup {id} |-> IF x = id THEN [nt |-> nt, label |-> label] ELSE st.nodes[x]]]
OutIdx(st, n) == { i \in 1..Len(st.edges) : st.edges[i].from = n }
AddEdge(st, from, to, kind, ts, conds) ==
  [st EXCEPT !.edges = Append(@, [from |-> from, to |-> to, kind |-> kind, ts |-> ts, conds |-> conds])]
Same(e, from, to, kind, ts) == e.from = from /\ e.to = to /\ e.kind = kind /\ e.ts = ts
HasEdge(st, from, to, kind, ts) == \E i \in 1..Len(st.edges) : Same(st.edges[i], from, to, kind, ts)
Upsert(st, from, to, kind, ts, cond0) ==
  LET cond == IF cond0 = "" THEN "none" ELSE cond0 IN
  IF HasEdge(st, from, to, kind, ts) THEN
    LET i == CHOOSE j \in 1..Len(st.edges) : Same(st.edges[j], from, to, kind, ts) /\ \A k \in 1..(j-1) : ~Same(st.edges[k], from, to, kind, ts) IN
    IF cond \in Range(st.edges[i].conds) THEN st
    ELSE [st EXCEPT !.edges[i].conds = Append(@, cond)]
  ELSE AddEdge(st, from, to, kind, ts, <<cond>>)

RECURSIVE ThisFold(_, _, _, _)
ThisFold(st, p, restr, i) ==
  IF i > Len(restr) THEN st
  ELSE LET x == restr[i]
           tgt == CASE x.kind = "type" -> [id |-> x.t, nt |-> "type", label |-> x.t]
                    [] x.kind = "wild" -> [id |-> x.t \o ":*", nt |-> "wild", label |-> x.t \o ":*"]
                    [] x.kind = "uset" -> [id |-> RelId(x.t, x.rel), nt |-> "rel", label |-> RelId(x.t, x.rel)]
           s1 == AddNode(st, tgt.id, tgt.nt, tgt.label)
       IN ThisFold(Upsert(s1, p, tgt.id, "direct", "", x.cond), p, restr, i + 1)

RECURSIVE TTUFold(_, _, _, _, _, _, _)
TTUFold(M, st, p, t, ttu, restr, i) ==
  IF st.err # "none" \/ i > Len(restr) THEN st
  ELSE LET x == restr[i]
           tgt == RelId(x.t, ttu.rel)
           lab == RelId(t, ttu.ts)
       IN IF ~HasRel(M, x.t, ttu.rel) THEN [st EXCEPT !.err = "invalid:parentlacks"]
          ELSE LET s1 == AddNode(st, tgt, "rel", tgt) IN
               TTUFold(M, IF HasEdge(s1, p, tgt, "ttu", lab) THEN s1 ELSE Upsert(s1, p, tgt, "ttu", lab, x.cond), p, t, ttu, restr, i + 1)

RECURSIVE Rw(_, _, _, _, _, _)
RECURSIVE RwChildren(_, _, _, _, _, _, _)
Rw(M, st, p, t, r, tree) ==
  IF st.err # "none" THEN st
  ELSE CASE tree.k = "this" -> ThisFold(st, p, RD(M, t, r).restr, 1)
    [] tree.k = "cu" ->
         LET tgt == RelId(t, tree.rel)
             s1 == AddNode(st, tgt, "rel", tgt)
             kind == IF st.nodes[p].nt = "rel" THEN "computed" ELSE "rewrite"
         IN AddEdge(s1, p, tgt, kind, "", <<"none">>)
    [] tree.k = "ttu" ->
         IF ~HasRel(M, t, tree.ts) THEN [st EXCEPT !.err = "invalid:tupleset"]
         ELSE IF Len(RD(M, t, tree.ts).restr) = 0 THEN [st EXCEPT !.err = "invalid:tuplesetempty"]
         ELSE TTUFold(M, st, p, t, tree, RD(M, t, tree.ts).restr, 1)
    [] OTHER ->
         LET op == p \o "/" \o ToString(Cardinality(OutIdx(st, p)) + 1)
             s1 == AddNode(st, op, "op", OpLabel(tree.k))
             s2 == AddEdge(s1, p, op, "rewrite", "", <<"none">>)
         IN RwChildren(M, s2, op, t, r, tree.ch, 1)
RwChildren(M, st, op, t, r, ch, i) ==
  IF i > Len(ch) THEN st ELSE RwChildren(M, Rw(M, st, op, t, r, ch[i]), op, t, r, ch, i + 1)

RECURSIVE RelFold(_, _, _, _, _)
RelFold(M, st, t, rels, i) ==
  IF i > Len(rels) \/ st.err # "none" THEN st
  ELSE LET id == RelId(t, rels[i].name)
           s1 == AddNode(st, id, "rel", id)
       IN RelFold(M, Rw(M, s1, id, t, rels[i].name, rels[i].rw), t, rels, i + 1)
RECURSIVE TypeFold(_, _, _)
TypeFold(M, st, i) ==
  IF i > Len(M.types) \/ st.err # "none" THEN st
  ELSE LET t == M.types[i].name IN TypeFold(M, RelFold(M, AddNode(st, t, "type", t), t, M.types[i].rels, 1), i + 1)

EmptyNodes == [x \in {} |-> 0]
Graph(M) == TypeFold(M, [nodes |-> EmptyNodes, edges |-> <<>>, err |-> "none"], 1)

(***************************************************************************)
(* 2. Context record: everything the Ideal layer and the DFS read from the *)
(*    graph, computed once (TLC re-evaluates variable-dependent zero-arity *)
(*    operators at every reference).                                       *)
(***************************************************************************)
AfterHash(s) == LET i == CHOOSE k \in 1..Len(s) : SubSeq(s, k, k) = "#" IN SubSeq(s, i + 1, Len(s))
WildTypeOf(id) == SubSeq(id, 1, Len(id) - 2)
RECURSIVE SetMax(_)
SetMax(S) == IF S = {} THEN 0 ELSE LET x == CHOOSE y \in S : TRUE IN Max(x, SetMax(S \ {x}))
RECURSIVE Closure(_, _, _)
Closure(adj, S, k) == LET S2 == S \cup UNION { adj[x] : x \in S } IN IF S2 = S \/ k = 0 THEN S2 ELSE Closure(adj, S2, k - 1)
RECURSIVE SortedSeq(_)
SortedSeq(S) == IF S = {} THEN <<>> ELSE LET m == CHOOSE x \in S : \A y \in S : x <= y IN <<m>> \o SortedSeq(S \ {m})

Ctx(g) ==
  LET N == DOMAIN g.nodes
      E == 1..Len(g.edges)
      From == [e \in E |-> g.edges[e].from]
      To == [e \in E |-> g.edges[e].to]
      IsTerm == [n \in N |-> g.nodes[n].nt \in {"type", "wild"}]
      OutE == [n \in N |-> { e \in E : From[e] = n }]
      \* operand groups: the whole direct list is one operand, a TTU (tupleset, computed relation) is one operand,
      \* every rewrite/computed edge is its own operand
      GKey == [e \in E |-> LET x == g.edges[e] IN
                 CASE x.kind = "direct" -> <<"d", "", "">>
                   [] x.kind = "ttu" -> <<"t", x.ts, AfterHash(x.to)>>
                   [] OTHER -> <<"r", ToString(e), "">>]
      Groups == [n \in N |-> { { e \in OutE[n] : GKey[e] = k } : k \in { GKey[e] : e \in OutE[n] } }]
      MinE(S) == CHOOSE e \in S : \A f \in S : e <= f
  IN [N |-> N, E |-> E, nN |-> Cardinality(N), From |-> From, To |-> To,
      Kind |-> [e \in E |-> g.edges[e].kind],
      Hop |-> [e \in E |-> IF g.edges[e].kind \in {"direct", "ttu"} THEN 1 ELSE 0],
      IsTerm |-> IsTerm, Groups |-> Groups,
      Out |-> [n \in N |-> SortedSeq(OutE[n])],
      \* operands in source order (by their first edge)
      GroupSeq |-> [n \in N |-> LET RECURSIVE Ord(_)
                                    Ord(S) == IF S = {} THEN <<>> ELSE LET g0 == CHOOSE gg \in S : \A h \in S : MinE(gg) <= MinE(h) IN <<g0>> \o Ord(S \ {g0})
                                IN Ord(Groups[n])],
      BaseGroup |-> [n \in N |-> IF Groups[n] = {} THEN {} ELSE CHOOSE gg \in Groups[n] : \A h \in Groups[n] : MinE(gg) <= MinE(h)],
      AllTypes |-> { IF g.nodes[n].nt = "wild" THEN WildTypeOf(n) ELSE n : n \in { x \in N : IsTerm[x] } },
      TermType |-> [n \in N |-> IF g.nodes[n].nt = "wild" THEN WildTypeOf(n) ELSE n],
      nt |-> [n \in N |-> g.nodes[n].nt], label |-> [n \in N |-> g.nodes[n].label],
      \* an edge is identified towards the outside by (source, 1-based position in the source's edge list)
      EPos |-> [e \in E |-> <<From[e], Cardinality({ f \in OutE[From[e]] : f <= e })>>],
      \* hasRewriteOnlyCycle: some cycle uses rewrite/computed edges only
      rwCycle |-> LET adj == [n \in N |-> { To[e] : e \in { x \in E : From[x] = n /\ g.edges[x].kind \in {"rewrite", "computed"} } }]
                  IN \E n \in N : n \in Closure(adj, adj[n], Cardinality(N)),
      err |-> g.err]

(***************************************************************************)
(* 3. Ideal layer                                                          *)
(***************************************************************************)
\* which terminal user types can reach a node (C04: union/relation any operand, intersection every operand,
\* exclusion the base operand; an operand is a whole direct list or a whole TTU)
TStep(C, T) == [n \in C.N |->
   IF C.IsTerm[n] THEN {C.TermType[n]}
   ELSE LET gs == { UNION { T[C.To[e]] : e \in gg } : gg \in C.Groups[n] }
            isOp == C.nt[n] = "op"
        IN IF C.Groups[n] = {} THEN {}
           ELSE IF isOp /\ C.label[n] = "intersection" THEN { t \in C.AllTypes : \A s \in gs : t \in s }
           ELSE IF isOp /\ C.label[n] = "exclusion" THEN UNION { T[C.To[e]] : e \in C.BaseGroup[n] }
           ELSE UNION gs]
RECURSIVE TypesIter(_, _, _)
TypesIter(C, T, k) == IF k = 0 THEN T ELSE LET T2 == TStep(C, T) IN IF T2 = T THEN T ELSE TypesIter(C, T2, k - 1)

AdjOf(C, edgeSet) == [n \in C.N |-> { C.To[e] : e \in { x \in edgeSet : C.From[x] = n } }]
ReachOf(C, adj) == [n \in C.N |-> Closure(adj, adj[n], C.nN)]

WStep(C, carry, inf, w) == [n \in C.N |->
   IF C.IsTerm[n] THEN 0 ELSE IF n \in inf THEN Inf
   ELSE SetMax({ IF w[C.To[e]] >= Inf THEN Inf ELSE w[C.To[e]] + C.Hop[e] : e \in { x \in carry : C.From[x] = n } })]
RECURSIVE WIter(_, _, _, _, _)
WIter(C, carry, inf, w, k) == IF k = 0 THEN w ELSE LET w2 == WStep(C, carry, inf, w) IN IF w2 = w THEN w ELSE WIter(C, carry, inf, w2, k - 1)

\* reasons = why the model is not well-founded (C05); tw = true weights (C04); wild = reachable public types (C11)
IdealOf(C) ==
  IF C.err # "none" THEN [reasons |-> {"ttu"}, tw |-> {}, ew |-> {}, wild |-> {}, ewild |-> {}, types |-> [n \in C.N |-> {}]]
  ELSE
  LET N == C.N
      Types == TypesIter(C, [n \in N |-> {}], C.nN * Cardinality(C.AllTypes) + 2)
      rAll == ReachOf(C, AdjOf(C, C.E))
      rRw == ReachOf(C, AdjOf(C, { e \in C.E : C.Hop[e] = 0 }))
      reasons == (IF \E n \in N : n \in rRw[n] THEN {"rewritecycle"} ELSE {})
            \cup (IF \E n \in N : C.nt[n] = "op" /\ C.label[n] # "union" /\ n \in rAll[n] THEN {"constraintoncycle"} ELSE {})
            \cup (IF \E n \in N : C.nt[n] = "op" /\ C.label[n] = "intersection" /\ Types[n] = {} THEN {"nocommon"} ELSE {})
            \cup (IF \E n \in N : C.nt[n] = "rel" /\ Types[n] = {} THEN {"noterminal"} ELSE {})
      WeightsFor(t) ==
         LET carry == { e \in C.E : t \in Types[C.From[e]] /\ t \in Types[C.To[e]] }
             r == ReachOf(C, AdjOf(C, carry))
             onc == { n \in N : n \in r[n] }
             inf == { n \in N : n \in onc \/ r[n] \cap onc # {} }
         IN WIter(C, carry, inf, [n \in N |-> 0], C.nN + 1)
      wByType == [t \in C.AllTypes |-> WeightsFor(t)]
      NT == { x \in N : ~C.IsTerm[x] }
      tw == IF reasons # {} THEN {} ELSE UNION { { <<n, t, wByType[t][n]>> : t \in Types[n] } : n \in NT }
      \* an edge carries the types of its target that survive at its source ... the property fixes edge weight =
      \* target weight (+1 for a hop) for every type of the target
      ew == IF reasons # {} THEN {} ELSE
            UNION { { <<C.EPos[e][1], C.EPos[e][2], t, IF C.IsTerm[C.To[e]] THEN 1
                              ELSE IF wByType[t][C.To[e]] >= Inf THEN Inf ELSE wByType[t][C.To[e]] + C.Hop[e]>> : t \in Types[C.To[e]] } : e \in C.E }
      wild == UNION { { <<n, C.TermType[y]>> : y \in { z \in (rAll[n] \cup {n}) : C.nt[z] = "wild" } } : n \in N }
      ewild == UNION { { <<C.EPos[e][1], C.EPos[e][2], C.TermType[y]>> : y \in { z \in (rAll[C.To[e]] \cup {C.To[e]}) : C.nt[z] = "wild" } } : e \in C.E }
  IN [reasons |-> reasons, tw |-> tw, ew |-> ew, wild |-> wild, ewild |-> ewild, types |-> Types]

\* class predicate of known finding D11 (operand-per-edge): some intersection/exclusion node has an operand made of
\* more than one edge (a direct list with several targets, or a TTU with several parent types)
HasMultiEdgeOperand(C) == \E n \in C.N : C.nt[n] = "op" /\ C.label[n] # "union" /\ \E gg \in C.Groups[n] : Cardinality(gg) > 1
\* class predicate of known finding D16 (re-seeding): an intersection with three or more edges - when the running
\* intersection becomes empty before the last edge the next edge re-seeds it (`len(weights) == 0` taken for "first edge")
HasReseedableIntersection(C) == \E n \in C.N : C.nt[n] = "op" /\ C.label[n] = "intersection" /\ Len(C.Out[n]) >= 3
KnownClass(C) == "OperandPerEdge" \in Devs /\ (HasMultiEdgeOperand(C) \/ HasReseedableIntersection(C))

(***************************************************************************)
(* 4. Impl layer: operators used by the PlusCal transcription              *)
(***************************************************************************)
TKey(t) == <<"T", t>>
RKey(n) == <<"R", n>>
IsRef(k) == k[1] = "R"
EmptyW == [k \in {} |-> 0]
MaxMerge(f, g) == [k \in DOMAIN f \cup DOMAIN g |->
                     IF k \in DOMAIN f /\ k \in DOMAIN g THEN Max(f[k], g[k])
                     ELSE IF k \in DOMAIN f THEN f[k] ELSE g[k]]
Bump(f) == [k \in DOMAIN f |-> IF f[k] = Inf THEN Inf ELSE f[k] + 1]
Restr(f, S) == [k \in S |-> f[k]]

\* isTupleCycle: a TTU edge or a direct edge into a userset on the DFS path at/after the first edge leaving n
IsTupleCycleOn(C, n, path) ==
  \E i \in 1..Len(path) : /\ \E j \in 1..i : C.From[path[j]] = n
                          /\ (C.Kind[path[i]] = "ttu" \/ (C.Kind[path[i]] = "direct" /\ C.nt[C.To[path[i]]] = "rel"))

RECURSIVE MaxStrat(_, _, _)
MaxStrat(es, i, ew) == IF i > Len(es) THEN EmptyW ELSE MaxMerge(ew[es[i]], MaxStrat(es, i+1, ew))
RECURSIVE MixedFold(_, _, _, _)
MixedFold(es, i, acc, ew) ==                       \* exclusion: only the LAST EDGE is "B"   (Dev_OperandPerEdge)
  IF i > Len(es) THEN acc
  ELSE LET w == ew[es[i]]
           nacc == IF i # Len(es) THEN MaxMerge(acc, w)
                   ELSE [k \in DOMAIN acc |-> IF k \in DOMAIN w THEN Max(acc[k], w[k]) ELSE acc[k]]
       IN MixedFold(es, i+1, nacc, ew)
RECURSIVE EnforceFold(_, _, _, _)
EnforceFold(es, i, acc, ew) ==                     \* intersection: every EDGE is an operand, re-seeds whenever acc is empty (Dev_OperandPerEdge)
  IF i > Len(es) THEN acc
  ELSE LET w == ew[es[i]]
           nacc == IF DOMAIN acc = {} THEN w ELSE [k \in DOMAIN acc \cap DOMAIN w |-> Max(acc[k], w[k])]
       IN EnforceFold(es, i+1, nacc, ew)

\* the strategies after the operand-grouping fix (D11 / D16): an operand is a group of edges (operandWeights), its weight the
\* max over its edges; the first operand seeds, nothing re-seeds
GroupW(gg, ew) == MaxStrat(SortedSeq(gg), 1, ew)
RECURSIVE EnforceG(_, _, _, _)
EnforceG(gs, i, acc, ew) ==
  IF i > Len(gs) THEN acc
  ELSE LET w == GroupW(gs[i], ew)
           nacc == IF i = 1 THEN w ELSE [k \in DOMAIN acc \cap DOMAIN w |-> Max(acc[k], w[k])]
       IN EnforceG(gs, i + 1, nacc, ew)
RECURSIVE MixedG(_, _, _, _)
MixedG(gs, i, acc, ew) ==
  IF i > Len(gs) THEN acc
  ELSE LET w == GroupW(gs[i], ew)
           nacc == IF i = 1 THEN w ELSE [k \in DOMAIN acc |-> IF k \in DOMAIN w THEN Max(acc[k], w[k]) ELSE acc[k]]
       IN MixedG(gs, i + 1, nacc, ew)

\* map-order choice of fixDependantEdgesWeight: for each dependent edge, which of its reference keys are ranged
\* after the root's own key (only then a follow-up dependency is registered for a key the edge already has)
\* (a choice is the set of pairs <<edge, key>> for which that happens; only pairs that can make a difference are offered:
\* the edge holds the root's key and the other key, and is not yet registered for the other key's node)
ChoiceSet(C, node, s) ==
  LET es == C.Out[node]
      fref == RKey(node)
      fw == (UNION { DOMAIN s.ew[es[i]] : i \in 1..Len(es) }) \ {fref}
      refs == { k \in fw : IsRef(k) }
      isRoot == (C.nt[node] = "rel" \/ (C.nt[node] = "op" /\ C.label[node] = "union"))
  IN IF ~isRoot THEN {{}}
     ELSE SUBSET { <<e, k>> \in s.tcd[node] \X refs : fref \in DOMAIN s.ew[e] /\ k \in DOMAIN s.ew[e] /\ e \notin s.tcd[k[2]] }

\* calculateNodeWeightFromTheEdges; s = [nw, ew, nwc, ewc, tcd]; returns [s, err, cycles]
FE(C, node, cycles, s, choice) ==
  LET es == C.Out[node]
      isUnionish == C.nt[node] # "op" \/ C.label[node] = "union"
      R(err, cyc, ns) == [s |-> ns, err |-> err, cycles |-> cyc]
  IN
  IF cycles = {} THEN
     IF Len(es) = 0 THEN R("invalid:noedges", cycles, s)
     ELSE IF isUnionish THEN R("none", cycles, [s EXCEPT !.nw[node] = MaxStrat(es, 1, s.ew)])
     ELSE IF C.label[node] = "intersection" THEN
        LET fw == IF "OperandPerEdge" \in Devs THEN EnforceFold(es, 1, EmptyW, s.ew) ELSE EnforceG(C.GroupSeq[node], 1, EmptyW, s.ew) IN
        IF DOMAIN fw = {} THEN R("invalid:nocommon", cycles, s) ELSE R("none", cycles, [s EXCEPT !.nw[node] = fw])
     ELSE R("none", cycles, [s EXCEPT !.nw[node] = IF "OperandPerEdge" \in Devs THEN MixedFold(es, 1, EmptyW, s.ew) ELSE MixedG(C.GroupSeq[node], 1, EmptyW, s.ew)])
  ELSE IF (C.nt[node] = "rel" \/ (C.nt[node] = "op" /\ C.label[node] = "union")) /\ node \in cycles THEN
     IF Len(es) = 0 THEN R("invalid:noedges", cycles, s)
     ELSE                                            \* calculateNodeWeightAndFixDependencies
       LET fref == RKey(node)
           fw   == [k \in (UNION { DOMAIN s.ew[es[i]] : i \in 1..Len(es) }) \ {fref} |-> Inf]
           hasRefs == \E r \in DOMAIN fw : IsRef(r)
           deps == s.tcd[node]
           ntcd == [n \in C.N |-> IF n = node THEN {}
                      ELSE s.tcd[n] \cup { e \in deps : /\ fref \in DOMAIN s.ew[e] /\ RKey(n) \in DOMAIN fw /\ hasRefs
                                                         /\ (RKey(n) \notin DOMAIN s.ew[e] \/ <<e, RKey(n)>> \in choice) }]
           new  == [e \in C.E |-> IF e \in deps /\ fref \in DOMAIN s.ew[e]
                                       THEN MaxMerge(Restr(s.ew[e], DOMAIN s.ew[e] \ {fref}), fw) ELSE s.ew[e]]
           newc == [e \in C.E |-> IF e \in deps THEN s.ewc[e] \cup s.nwc[node] ELSE s.ewc[e]]
           nnw0 == [s.nw EXCEPT ![node] = fw]
           nnw  == [n \in C.N |-> IF (\E e \in deps : C.From[e] = n) /\ fref \in DOMAIN nnw0[n]
                                       THEN MaxMerge(Restr(nnw0[n], DOMAIN nnw0[n] \ {fref}), fw) ELSE nnw0[n]]
           nnwc == [n \in C.N |-> IF (\E e \in deps : C.From[e] = n) THEN s.nwc[n] \cup s.nwc[node] ELSE s.nwc[n]]
       IN R("none", cycles \ {node}, [nw |-> nnw, ew |-> new, nwc |-> nnwc, ewc |-> newc, tcd |-> ntcd])
  ELSE IF isUnionish THEN
     IF Len(es) = 0 THEN R("invalid:noedges", cycles, s)
     ELSE R("none", cycles, [s EXCEPT !.nw[node] = MaxStrat(es, 1, s.ew)])
  ELSE R("tuplecycle:constraint", cycles, s)

\* allowed next DFS root: any unvisited non-terminal node, or the logged/forced one when the input carries `roots`
Unvisited(C, vis) == { x \in C.N : x \notin vis /\ ~C.IsTerm[x] }
\* (a forced order lists candidate roots; entries already visited when their turn comes are skipped, and when the list
\* is exhausted the remaining nodes come in any order - exactly what the verif hook of AssignWeights does)
RootChoices(inp, C, vis, taken) ==
  IF "roots" \in DOMAIN inp
  THEN LET idxs == { i \in 1..Len(inp.roots) : inp.roots[i] \in Unvisited(C, vis) }
       IN IF idxs # {} THEN { inp.roots[CHOOSE i \in idxs : \A j \in idxs : i <= j] }
          \* a recorded trace (inp.strict) lists every root the real run took: if the Impl layer needs more roots than the
          \* run logged, the two have parted already (the driver compares the outcomes) - continue in one fixed order
          ELSE IF "strict" \in DOMAIN inp THEN { CHOOSE n \in Unvisited(C, vis) : TRUE }
          ELSE Unvisited(C, vis)
  ELSE Unvisited(C, vis)

\* output projections (sets of tuples: JSON friendly, order free)
WOut(f) == { <<k[1], k[2], f[k]>> : k \in DOMAIN f }
Outcome(C, res, nw, ew, nwc, ewc) ==
  [result |-> res,
   nw |-> IF res = "ok" THEN UNION { { <<n, k[1], k[2], nw[n][k]>> : k \in DOMAIN nw[n] } : n \in C.N } ELSE {},
   ew |-> IF res = "ok" THEN UNION { { <<C.EPos[e][1], C.EPos[e][2], k[1], k[2], ew[e][k]>> : k \in DOMAIN ew[e] } : e \in C.E } ELSE {},
   nwc |-> IF res = "ok" THEN UNION { { <<n, t>> : t \in nwc[n] } : n \in C.N } ELSE {},
   ewc |-> IF res = "ok" THEN UNION { { <<C.EPos[e][1], C.EPos[e][2], t>> : t \in ewc[e] } : e \in C.E } ELSE {}]

\* JSON friendly rendering of the structure (nodes as a sequence sorted by nothing in particular: a set of records)
GraphOut(g) == [nodes |-> { [id |-> n, nt |-> g.nodes[n].nt, label |-> g.nodes[n].label] : n \in DOMAIN g.nodes },
                edges |-> g.edges, err |-> g.err]

NoCtx == [N |-> {}, E |-> {}, err |-> "unset"]

(***************************************************************************)
(* 4b. Event-level binding of the Impl layer (trace validation).           *)
(*  The verif hook VerifOnWeightStep of the real code fires when a step of *)
(*  the weight assignment has RETURNED: "edge" after calculateEdgeWeight,   *)
(*  "node" after the recursive calculateNodeWeight of an edge's target,    *)
(*  "root" after the calculateNodeWeight that AssignWeights starts. The    *)
(*  algorithm below passes through the same three points (cn3, ce2, m1)    *)
(*  and compares what it holds there with the logged event: what the step  *)
(*  returned (cycle set, error class), the weights and wildcards of the    *)
(*  node / edge concerned - placeholders R#n included - and, at a root,    *)
(*  the whole weight state. An input without `events` matches anything.    *)
(***************************************************************************)
ErrCls(e) == CASE e = "none" -> "none" [] e = "modelcycle" -> "modelcycle"
               [] e \in {"tuplecycle:constraint", "tuplecycle:unresolved"} -> "tuplecycle" [] OTHER -> "invalid"
FullState(C, nw, ew, nwc, ewc) ==
  [nw |-> UNION { { <<n, k[1], k[2], nw[n][k]>> : k \in DOMAIN nw[n] } : n \in C.N },
   ew |-> UNION { { <<C.EPos[e][1], C.EPos[e][2], k[1], k[2], ew[e][k]>> : k \in DOMAIN ew[e] } : e \in C.E },
   nwc |-> UNION { { <<n, t>> : t \in nwc[n] } : n \in C.N },
   ewc |-> UNION { { <<C.EPos[e][1], C.EPos[e][2], t>> : t \in ewc[e] } : e \in C.E }]
HasEvents(inp) == "events" \in DOMAIN inp
EvMatch(inp, n, got) ==
  ~HasEvents(inp) \/
  (n <= Len(inp.events) /\
   LET e == inp.events[n] IN
     /\ e.k = got.k /\ e.id = got.id /\ e.pos = got.pos /\ e.err = got.err
     /\ Range(e.w) = got.w /\ Range(e.wc) = got.wc /\ Range(e.cyc) = got.cyc
     /\ (got.k = "root" => /\ Range(e.nw) = got.full.nw /\ Range(e.ew) = got.full.ew
                            /\ Range(e.nwc) = got.full.nwc /\ Range(e.ewc) = got.full.ewc))
EvWant(inp, n) == IF HasEvents(inp) /\ n <= Len(inp.events) THEN [k |-> inp.events[n].k, id |-> inp.events[n].id, pos |-> inp.events[n].pos] ELSE [k |-> "end of trace"]

(* --algorithm AssignWeights {
variables ti \in 1..Len(Inputs),
          \* C (the context of Graph(M)) and ideal are computed in the first step, not in Init: TLC computes initial
          \* states on one thread but takes steps on all workers
          C = NoCtx, ideal = <<>>,
          visited = {}, nw = <<>>, ew = <<>>, nwc = <<>>, ewc = <<>>,
          tcd = <<>>, retCycles = {}, retErr = "none", roots = <<>>, root = "", result = "running",
          evn = 0, evbad = 0,
          inp = <<>>;              \* inp, read once (TLC re-evaluates the definition behind the constant at every reference)      \* events passed so far, index of the first one that differs from the logged trace (0: none)

macro Ev(got) {
  if (evbad = 0 /\ ~EvMatch(inp, evn + 1, got)) {
    print ToJson([rec |-> "evmismatch", id |-> inp.id, n |-> evn + 1, got |-> got, want |-> EvWant(inp, evn + 1)]);
    evbad := evn + 1;
  };
  evn := evn + 1;
}

procedure CalcNode(nodeID, path) variables cycles = {}, idx = 1, outs = <<>>, cur = 0;
{
cn0: if (nodeID \in visited \/ C.IsTerm[nodeID]) { retCycles := {}; retErr := "none"; return; };
cn1: visited := visited \cup {nodeID}; outs := C.Out[nodeID];
cn2: while (idx <= Len(outs)) {
       cur := outs[idx];
       if (DOMAIN ew[cur] # {}) { idx := idx + 1; }
       else if (C.IsTerm[C.To[cur]]) {
         if (C.nt[C.To[cur]] = "wild") { ewc[cur] := ewc[cur] \cup {C.TermType[C.To[cur]]};
                                     nwc[nodeID] := nwc[nodeID] \cup {C.TermType[C.To[cur]]}; };
         ew[cur] := (TKey(C.TermType[C.To[cur]]) :> 1);
         idx := idx + 1;
       } else {
         call CalcEdge(cur, path);
cn3:     Ev([k |-> "edge", id |-> nodeID, pos |-> C.EPos[cur][2], w |-> WOut(ew[cur]), wc |-> ewc[cur], cyc |-> retCycles, err |-> ErrCls(retErr)]);
         if (ewc[cur] = {}) { ewc[cur] := nwc[C.To[cur]]; };
cn3b:    nwc[nodeID] := nwc[nodeID] \cup ewc[cur];
         if (retErr # "none") { retCycles := cycles \cup retCycles; return; }
         else { cycles := cycles \cup retCycles; idx := idx + 1; };
       };
     };
cn4: with (choice \in ChoiceSet(C, nodeID, [nw |-> nw, ew |-> ew, nwc |-> nwc, ewc |-> ewc, tcd |-> tcd])) {
       with (r = FE(C, nodeID, cycles, [nw |-> nw, ew |-> ew, nwc |-> nwc, ewc |-> ewc, tcd |-> tcd], choice)) {
         nw := r.s.nw; ew := r.s.ew; nwc := r.s.nwc; ewc := r.s.ewc; tcd := r.s.tcd;
         retErr := r.err; retCycles := r.cycles; }; };
     return;
}

procedure CalcEdge(edge, epath) variables isTC = FALSE, tw = EmptyW, np = <<>>;
{
ce0: if (C.From[edge] = C.To[edge]) {
       if ("SelfLoopAnyKind" \in Devs \/ C.Kind[edge] \in {"ttu", "direct"}) {
         \* self-loop shortcut; with the deviation on (code before the D10 fix) for any edge kind
         ew[edge] := (RKey(C.To[edge]) :> Inf); tcd[C.To[edge]] := tcd[C.To[edge]] \cup {edge};
         retCycles := {C.From[edge]}; retErr := "none"; return; }
       else { retCycles := {}; retErr := "modelcycle"; return; } };
ce1: np := Append(epath, edge); call CalcNode(C.To[edge], np);
ce2: Ev([k |-> "node", id |-> C.To[edge], pos |-> 0, w |-> WOut(nw[C.To[edge]]), wc |-> nwc[C.To[edge]], cyc |-> retCycles, err |-> ErrCls(retErr)]);
     if (retErr # "none") { return; };
ce3: if (DOMAIN nw[C.To[edge]] = {}) {                  \* "no weight" = back edge ... or finished with an empty map
       if (IsTupleCycleOn(C, C.To[edge], np)) {            \* classification by DFS stack path (Dev_BackEdgeByStackPath)
         ew[edge] := (RKey(C.To[edge]) :> Inf); tcd[C.To[edge]] := tcd[C.To[edge]] \cup {edge};
         retCycles := retCycles \cup {C.To[edge]}; return;
       } else { retErr := "modelcycle"; return; }; };
ce4: isTC := retCycles # {}; tw := nw[C.To[edge]];
     if (isTC) { tcd := [n \in C.N |-> IF n \in retCycles THEN tcd[n] \cup {edge} ELSE tcd[n]]; }
     else { tcd := [n \in C.N |-> IF RKey(n) \in DOMAIN tw THEN tcd[n] \cup {edge} ELSE tcd[n]];
            retCycles := { n \in C.N : RKey(n) \in DOMAIN tw }; };
     ew[edge] := IF C.Kind[edge] \in {"ttu", "direct"} THEN Bump(tw) ELSE tw;
ce5: return;
}

{
mi: inp := Inputs[ti]; C := Ctx(Graph(inp.m)); ideal := IdealOf(C);
    nw := [n \in C.N |-> EmptyW]; ew := [e \in C.E |-> EmptyW];
    nwc := [n \in C.N |-> IF C.nt[n] = "wild" THEN {C.TermType[n]} ELSE {}]; ewc := [e \in C.E |-> {}];
    tcd := [n \in C.N |-> {}];
mb: print ToJson([rec |-> "input", id |-> inp.id, m |-> inp.m, g |-> GraphOut(Graph(inp.m)),
                  ideal |-> [reasons |-> ideal.reasons, tw |-> ideal.tw, ew |-> ideal.ew, wild |-> ideal.wild, ewild |-> ideal.ewild],
                  multi |-> HasMultiEdgeOperand(C), reseed |-> HasReseedableIntersection(C)]);
    if (C.err # "none") { result := C.err; }
    else if ("RewriteCycleByDFSOrder" \notin Devs /\ C.rwCycle) { result := "modelcycle"; };   \* pre-pass of the D8 fix
m0: while (result = "running" /\ Unvisited(C, visited) # {}) {
      with (n \in RootChoices(inp, C, visited, roots)) { roots := Append(roots, n); root := n; };
m0b:  call CalcNode(root, <<>>);
m1:   Ev([k |-> "root", id |-> root, pos |-> 0, w |-> WOut(nw[root]), wc |-> nwc[root], cyc |-> retCycles, err |-> ErrCls(retErr), full |-> FullState(C, nw, ew, nwc, ewc)]);
      if (retErr # "none") { result := retErr; } else if (retCycles # {}) { result := "tuplecycle:unresolved"; };
      root := "";
    };
m2: if (result = "running") {
      if ("EmptyWeightsAccepted" \notin Devs /\ \E n \in C.N : C.nt[n] = "rel" /\ DOMAIN nw[n] = {}) { result := "invalid:noterminal"; }   \* post-pass of the D9 fix
      else { result := "ok"; } };
m3: print ToJson([rec |-> "outcome", id |-> inp.id, roots |-> roots, out |-> Outcome(C, result, nw, ew, nwc, ewc), evn |-> evn, evbad |-> evbad,
                  evall |-> (~HasEvents(inp) \/ evn = Len(inp.events))]);
}
} *)
\* BEGIN TRANSLATION
CONSTANT defaultInitValue
VARIABLES pc, ti, C, ideal, visited, nw, ew, nwc, ewc, tcd, retCycles, retErr, 
          roots, root, result, evn, evbad, inp, stack, nodeID, path, cycles, 
          idx, outs, cur, edge, epath, isTC, tw, np

vars == << pc, ti, C, ideal, visited, nw, ew, nwc, ewc, tcd, retCycles, 
           retErr, roots, root, result, evn, evbad, inp, stack, nodeID, path, 
           cycles, idx, outs, cur, edge, epath, isTC, tw, np >>

Init == (* Global variables *)
        /\ ti \in 1..Len(Inputs)
        /\ C = NoCtx
        /\ ideal = <<>>
        /\ visited = {}
        /\ nw = <<>>
        /\ ew = <<>>
        /\ nwc = <<>>
        /\ ewc = <<>>
        /\ tcd = <<>>
        /\ retCycles = {}
        /\ retErr = "none"
        /\ roots = <<>>
        /\ root = ""
        /\ result = "running"
        /\ evn = 0
        /\ evbad = 0
        /\ inp = <<>>
        (* Procedure CalcNode *)
        /\ nodeID = defaultInitValue
        /\ path = defaultInitValue
        /\ cycles = {}
        /\ idx = 1
        /\ outs = <<>>
        /\ cur = 0
        (* Procedure CalcEdge *)
        /\ edge = defaultInitValue
        /\ epath = defaultInitValue
        /\ isTC = FALSE
        /\ tw = EmptyW
        /\ np = <<>>
        /\ stack = << >>
        /\ pc = "mi"

cn0 == /\ pc = "cn0"
       /\ IF nodeID \in visited \/ C.IsTerm[nodeID]
             THEN /\ retCycles' = {}
                  /\ retErr' = "none"
                  /\ pc' = Head(stack).pc
                  /\ cycles' = Head(stack).cycles
                  /\ idx' = Head(stack).idx
                  /\ outs' = Head(stack).outs
                  /\ cur' = Head(stack).cur
                  /\ nodeID' = Head(stack).nodeID
                  /\ path' = Head(stack).path
                  /\ stack' = Tail(stack)
             ELSE /\ pc' = "cn1"
                  /\ UNCHANGED << retCycles, retErr, stack, nodeID, path, 
                                  cycles, idx, outs, cur >>
       /\ UNCHANGED << ti, C, ideal, visited, nw, ew, nwc, ewc, tcd, roots, 
                       root, result, evn, evbad, inp, edge, epath, isTC, tw, 
                       np >>

cn1 == /\ pc = "cn1"
       /\ visited' = (visited \cup {nodeID})
       /\ outs' = C.Out[nodeID]
       /\ pc' = "cn2"
       /\ UNCHANGED << ti, C, ideal, nw, ew, nwc, ewc, tcd, retCycles, retErr, 
                       roots, root, result, evn, evbad, inp, stack, nodeID, 
                       path, cycles, idx, cur, edge, epath, isTC, tw, np >>

cn2 == /\ pc = "cn2"
       /\ IF idx <= Len(outs)
             THEN /\ cur' = outs[idx]
                  /\ IF DOMAIN ew[cur'] # {}
                        THEN /\ idx' = idx + 1
                             /\ pc' = "cn2"
                             /\ UNCHANGED << ew, nwc, ewc, stack, edge, epath, 
                                             isTC, tw, np >>
                        ELSE /\ IF C.IsTerm[C.To[cur']]
                                   THEN /\ IF C.nt[C.To[cur']] = "wild"
                                              THEN /\ ewc' = [ewc EXCEPT ![cur'] = ewc[cur'] \cup {C.TermType[C.To[cur']]}]
                                                   /\ nwc' = [nwc EXCEPT ![nodeID] = nwc[nodeID] \cup {C.TermType[C.To[cur']]}]
                                              ELSE /\ TRUE
                                                   /\ UNCHANGED << nwc, ewc >>
                                        /\ ew' = [ew EXCEPT ![cur'] = (TKey(C.TermType[C.To[cur']]) :> 1)]
                                        /\ idx' = idx + 1
                                        /\ pc' = "cn2"
                                        /\ UNCHANGED << stack, edge, epath, 
                                                        isTC, tw, np >>
                                   ELSE /\ /\ edge' = cur'
                                           /\ epath' = path
                                           /\ stack' = << [ procedure |->  "CalcEdge",
                                                            pc        |->  "cn3",
                                                            isTC      |->  isTC,
                                                            tw        |->  tw,
                                                            np        |->  np,
                                                            edge      |->  edge,
                                                            epath     |->  epath ] >>
                                                        \o stack
                                        /\ isTC' = FALSE
                                        /\ tw' = EmptyW
                                        /\ np' = <<>>
                                        /\ pc' = "ce0"
                                        /\ UNCHANGED << ew, nwc, ewc, idx >>
             ELSE /\ pc' = "cn4"
                  /\ UNCHANGED << ew, nwc, ewc, stack, idx, cur, edge, epath, 
                                  isTC, tw, np >>
       /\ UNCHANGED << ti, C, ideal, visited, nw, tcd, retCycles, retErr, 
                       roots, root, result, evn, evbad, inp, nodeID, path, 
                       cycles, outs >>

cn3 == /\ pc = "cn3"
       /\ IF evbad = 0 /\ ~EvMatch(inp, evn + 1, ([k |-> "edge", id |-> nodeID, pos |-> C.EPos[cur][2], w |-> WOut(ew[cur]), wc |-> ewc[cur], cyc |-> retCycles, err |-> ErrCls(retErr)]))
             THEN /\ PrintT(ToJson([rec |-> "evmismatch", id |-> inp.id, n |-> evn + 1, got |-> ([k |-> "edge", id |-> nodeID, pos |-> C.EPos[cur][2], w |-> WOut(ew[cur]), wc |-> ewc[cur], cyc |-> retCycles, err |-> ErrCls(retErr)]), want |-> EvWant(inp, evn + 1)]))
                  /\ evbad' = evn + 1
             ELSE /\ TRUE
                  /\ evbad' = evbad
       /\ evn' = evn + 1
       /\ IF ewc[cur] = {}
             THEN /\ ewc' = [ewc EXCEPT ![cur] = nwc[C.To[cur]]]
             ELSE /\ TRUE
                  /\ ewc' = ewc
       /\ pc' = "cn3b"
       /\ UNCHANGED << ti, C, ideal, visited, nw, ew, nwc, tcd, retCycles, 
                       retErr, roots, root, result, inp, stack, nodeID, path, 
                       cycles, idx, outs, cur, edge, epath, isTC, tw, np >>

cn3b == /\ pc = "cn3b"
        /\ nwc' = [nwc EXCEPT ![nodeID] = nwc[nodeID] \cup ewc[cur]]
        /\ IF retErr # "none"
              THEN /\ retCycles' = (cycles \cup retCycles)
                   /\ pc' = Head(stack).pc
                   /\ cycles' = Head(stack).cycles
                   /\ idx' = Head(stack).idx
                   /\ outs' = Head(stack).outs
                   /\ cur' = Head(stack).cur
                   /\ nodeID' = Head(stack).nodeID
                   /\ path' = Head(stack).path
                   /\ stack' = Tail(stack)
              ELSE /\ cycles' = (cycles \cup retCycles)
                   /\ idx' = idx + 1
                   /\ pc' = "cn2"
                   /\ UNCHANGED << retCycles, stack, nodeID, path, outs, cur >>
        /\ UNCHANGED << ti, C, ideal, visited, nw, ew, ewc, tcd, retErr, roots, 
                        root, result, evn, evbad, inp, edge, epath, isTC, tw, 
                        np >>

cn4 == /\ pc = "cn4"
       /\ \E choice \in ChoiceSet(C, nodeID, [nw |-> nw, ew |-> ew, nwc |-> nwc, ewc |-> ewc, tcd |-> tcd]):
            LET r == FE(C, nodeID, cycles, [nw |-> nw, ew |-> ew, nwc |-> nwc, ewc |-> ewc, tcd |-> tcd], choice) IN
              /\ nw' = r.s.nw
              /\ ew' = r.s.ew
              /\ nwc' = r.s.nwc
              /\ ewc' = r.s.ewc
              /\ tcd' = r.s.tcd
              /\ retErr' = r.err
              /\ retCycles' = r.cycles
       /\ pc' = Head(stack).pc
       /\ cycles' = Head(stack).cycles
       /\ idx' = Head(stack).idx
       /\ outs' = Head(stack).outs
       /\ cur' = Head(stack).cur
       /\ nodeID' = Head(stack).nodeID
       /\ path' = Head(stack).path
       /\ stack' = Tail(stack)
       /\ UNCHANGED << ti, C, ideal, visited, roots, root, result, evn, evbad, 
                       inp, edge, epath, isTC, tw, np >>

CalcNode == cn0 \/ cn1 \/ cn2 \/ cn3 \/ cn3b \/ cn4

ce0 == /\ pc = "ce0"
       /\ IF C.From[edge] = C.To[edge]
             THEN /\ IF "SelfLoopAnyKind" \in Devs \/ C.Kind[edge] \in {"ttu", "direct"}
                        THEN /\ ew' = [ew EXCEPT ![edge] = (RKey(C.To[edge]) :> Inf)]
                             /\ tcd' = [tcd EXCEPT ![C.To[edge]] = tcd[C.To[edge]] \cup {edge}]
                             /\ retCycles' = {C.From[edge]}
                             /\ retErr' = "none"
                             /\ pc' = Head(stack).pc
                             /\ isTC' = Head(stack).isTC
                             /\ tw' = Head(stack).tw
                             /\ np' = Head(stack).np
                             /\ edge' = Head(stack).edge
                             /\ epath' = Head(stack).epath
                             /\ stack' = Tail(stack)
                        ELSE /\ retCycles' = {}
                             /\ retErr' = "modelcycle"
                             /\ pc' = Head(stack).pc
                             /\ isTC' = Head(stack).isTC
                             /\ tw' = Head(stack).tw
                             /\ np' = Head(stack).np
                             /\ edge' = Head(stack).edge
                             /\ epath' = Head(stack).epath
                             /\ stack' = Tail(stack)
                             /\ UNCHANGED << ew, tcd >>
             ELSE /\ pc' = "ce1"
                  /\ UNCHANGED << ew, tcd, retCycles, retErr, stack, edge, 
                                  epath, isTC, tw, np >>
       /\ UNCHANGED << ti, C, ideal, visited, nw, nwc, ewc, roots, root, 
                       result, evn, evbad, inp, nodeID, path, cycles, idx, 
                       outs, cur >>

ce1 == /\ pc = "ce1"
       /\ np' = Append(epath, edge)
       /\ /\ nodeID' = C.To[edge]
          /\ path' = np'
          /\ stack' = << [ procedure |->  "CalcNode",
                           pc        |->  "ce2",
                           cycles    |->  cycles,
                           idx       |->  idx,
                           outs      |->  outs,
                           cur       |->  cur,
                           nodeID    |->  nodeID,
                           path      |->  path ] >>
                       \o stack
       /\ cycles' = {}
       /\ idx' = 1
       /\ outs' = <<>>
       /\ cur' = 0
       /\ pc' = "cn0"
       /\ UNCHANGED << ti, C, ideal, visited, nw, ew, nwc, ewc, tcd, retCycles, 
                       retErr, roots, root, result, evn, evbad, inp, edge, 
                       epath, isTC, tw >>

ce2 == /\ pc = "ce2"
       /\ IF evbad = 0 /\ ~EvMatch(inp, evn + 1, ([k |-> "node", id |-> C.To[edge], pos |-> 0, w |-> WOut(nw[C.To[edge]]), wc |-> nwc[C.To[edge]], cyc |-> retCycles, err |-> ErrCls(retErr)]))
             THEN /\ PrintT(ToJson([rec |-> "evmismatch", id |-> inp.id, n |-> evn + 1, got |-> ([k |-> "node", id |-> C.To[edge], pos |-> 0, w |-> WOut(nw[C.To[edge]]), wc |-> nwc[C.To[edge]], cyc |-> retCycles, err |-> ErrCls(retErr)]), want |-> EvWant(inp, evn + 1)]))
                  /\ evbad' = evn + 1
             ELSE /\ TRUE
                  /\ evbad' = evbad
       /\ evn' = evn + 1
       /\ IF retErr # "none"
             THEN /\ pc' = Head(stack).pc
                  /\ isTC' = Head(stack).isTC
                  /\ tw' = Head(stack).tw
                  /\ np' = Head(stack).np
                  /\ edge' = Head(stack).edge
                  /\ epath' = Head(stack).epath
                  /\ stack' = Tail(stack)
             ELSE /\ pc' = "ce3"
                  /\ UNCHANGED << stack, edge, epath, isTC, tw, np >>
       /\ UNCHANGED << ti, C, ideal, visited, nw, ew, nwc, ewc, tcd, retCycles, 
                       retErr, roots, root, result, inp, nodeID, path, cycles, 
                       idx, outs, cur >>

ce3 == /\ pc = "ce3"
       /\ IF DOMAIN nw[C.To[edge]] = {}
             THEN /\ IF IsTupleCycleOn(C, C.To[edge], np)
                        THEN /\ ew' = [ew EXCEPT ![edge] = (RKey(C.To[edge]) :> Inf)]
                             /\ tcd' = [tcd EXCEPT ![C.To[edge]] = tcd[C.To[edge]] \cup {edge}]
                             /\ retCycles' = (retCycles \cup {C.To[edge]})
                             /\ pc' = Head(stack).pc
                             /\ isTC' = Head(stack).isTC
                             /\ tw' = Head(stack).tw
                             /\ np' = Head(stack).np
                             /\ edge' = Head(stack).edge
                             /\ epath' = Head(stack).epath
                             /\ stack' = Tail(stack)
                             /\ UNCHANGED retErr
                        ELSE /\ retErr' = "modelcycle"
                             /\ pc' = Head(stack).pc
                             /\ isTC' = Head(stack).isTC
                             /\ tw' = Head(stack).tw
                             /\ np' = Head(stack).np
                             /\ edge' = Head(stack).edge
                             /\ epath' = Head(stack).epath
                             /\ stack' = Tail(stack)
                             /\ UNCHANGED << ew, tcd, retCycles >>
             ELSE /\ pc' = "ce4"
                  /\ UNCHANGED << ew, tcd, retCycles, retErr, stack, edge, 
                                  epath, isTC, tw, np >>
       /\ UNCHANGED << ti, C, ideal, visited, nw, nwc, ewc, roots, root, 
                       result, evn, evbad, inp, nodeID, path, cycles, idx, 
                       outs, cur >>

ce4 == /\ pc = "ce4"
       /\ isTC' = (retCycles # {})
       /\ tw' = nw[C.To[edge]]
       /\ IF isTC'
             THEN /\ tcd' = [n \in C.N |-> IF n \in retCycles THEN tcd[n] \cup {edge} ELSE tcd[n]]
                  /\ UNCHANGED retCycles
             ELSE /\ tcd' = [n \in C.N |-> IF RKey(n) \in DOMAIN tw' THEN tcd[n] \cup {edge} ELSE tcd[n]]
                  /\ retCycles' = { n \in C.N : RKey(n) \in DOMAIN tw' }
       /\ ew' = [ew EXCEPT ![edge] = IF C.Kind[edge] \in {"ttu", "direct"} THEN Bump(tw') ELSE tw']
       /\ pc' = "ce5"
       /\ UNCHANGED << ti, C, ideal, visited, nw, nwc, ewc, retErr, roots, 
                       root, result, evn, evbad, inp, stack, nodeID, path, 
                       cycles, idx, outs, cur, edge, epath, np >>

ce5 == /\ pc = "ce5"
       /\ pc' = Head(stack).pc
       /\ isTC' = Head(stack).isTC
       /\ tw' = Head(stack).tw
       /\ np' = Head(stack).np
       /\ edge' = Head(stack).edge
       /\ epath' = Head(stack).epath
       /\ stack' = Tail(stack)
       /\ UNCHANGED << ti, C, ideal, visited, nw, ew, nwc, ewc, tcd, retCycles, 
                       retErr, roots, root, result, evn, evbad, inp, nodeID, 
                       path, cycles, idx, outs, cur >>

CalcEdge == ce0 \/ ce1 \/ ce2 \/ ce3 \/ ce4 \/ ce5

mi == /\ pc = "mi"
      /\ inp' = Inputs[ti]
      /\ C' = Ctx(Graph(inp'.m))
      /\ ideal' = IdealOf(C')
      /\ nw' = [n \in C'.N |-> EmptyW]
      /\ ew' = [e \in C'.E |-> EmptyW]
      /\ nwc' = [n \in C'.N |-> IF C'.nt[n] = "wild" THEN {C'.TermType[n]} ELSE {}]
      /\ ewc' = [e \in C'.E |-> {}]
      /\ tcd' = [n \in C'.N |-> {}]
      /\ pc' = "mb"
      /\ UNCHANGED << ti, visited, retCycles, retErr, roots, root, result, evn, 
                      evbad, stack, nodeID, path, cycles, idx, outs, cur, edge, 
                      epath, isTC, tw, np >>

mb == /\ pc = "mb"
      /\ PrintT(ToJson([rec |-> "input", id |-> inp.id, m |-> inp.m, g |-> GraphOut(Graph(inp.m)),
                        ideal |-> [reasons |-> ideal.reasons, tw |-> ideal.tw, ew |-> ideal.ew, wild |-> ideal.wild, ewild |-> ideal.ewild],
                        multi |-> HasMultiEdgeOperand(C), reseed |-> HasReseedableIntersection(C)]))
      /\ IF C.err # "none"
            THEN /\ result' = C.err
            ELSE /\ IF "RewriteCycleByDFSOrder" \notin Devs /\ C.rwCycle
                       THEN /\ result' = "modelcycle"
                       ELSE /\ TRUE
                            /\ UNCHANGED result
      /\ pc' = "m0"
      /\ UNCHANGED << ti, C, ideal, visited, nw, ew, nwc, ewc, tcd, retCycles, 
                      retErr, roots, root, evn, evbad, inp, stack, nodeID, 
                      path, cycles, idx, outs, cur, edge, epath, isTC, tw, np >>

m0 == /\ pc = "m0"
      /\ IF result = "running" /\ Unvisited(C, visited) # {}
            THEN /\ \E n \in RootChoices(inp, C, visited, roots):
                      /\ roots' = Append(roots, n)
                      /\ root' = n
                 /\ pc' = "m0b"
            ELSE /\ pc' = "m2"
                 /\ UNCHANGED << roots, root >>
      /\ UNCHANGED << ti, C, ideal, visited, nw, ew, nwc, ewc, tcd, retCycles, 
                      retErr, result, evn, evbad, inp, stack, nodeID, path, 
                      cycles, idx, outs, cur, edge, epath, isTC, tw, np >>

m0b == /\ pc = "m0b"
       /\ /\ nodeID' = root
          /\ path' = <<>>
          /\ stack' = << [ procedure |->  "CalcNode",
                           pc        |->  "m1",
                           cycles    |->  cycles,
                           idx       |->  idx,
                           outs      |->  outs,
                           cur       |->  cur,
                           nodeID    |->  nodeID,
                           path      |->  path ] >>
                       \o stack
       /\ cycles' = {}
       /\ idx' = 1
       /\ outs' = <<>>
       /\ cur' = 0
       /\ pc' = "cn0"
       /\ UNCHANGED << ti, C, ideal, visited, nw, ew, nwc, ewc, tcd, retCycles, 
                       retErr, roots, root, result, evn, evbad, inp, edge, 
                       epath, isTC, tw, np >>

m1 == /\ pc = "m1"
      /\ IF evbad = 0 /\ ~EvMatch(inp, evn + 1, ([k |-> "root", id |-> root, pos |-> 0, w |-> WOut(nw[root]), wc |-> nwc[root], cyc |-> retCycles, err |-> ErrCls(retErr), full |-> FullState(C, nw, ew, nwc, ewc)]))
            THEN /\ PrintT(ToJson([rec |-> "evmismatch", id |-> inp.id, n |-> evn + 1, got |-> ([k |-> "root", id |-> root, pos |-> 0, w |-> WOut(nw[root]), wc |-> nwc[root], cyc |-> retCycles, err |-> ErrCls(retErr), full |-> FullState(C, nw, ew, nwc, ewc)]), want |-> EvWant(inp, evn + 1)]))
                 /\ evbad' = evn + 1
            ELSE /\ TRUE
                 /\ evbad' = evbad
      /\ evn' = evn + 1
      /\ IF retErr # "none"
            THEN /\ result' = retErr
            ELSE /\ IF retCycles # {}
                       THEN /\ result' = "tuplecycle:unresolved"
                       ELSE /\ TRUE
                            /\ UNCHANGED result
      /\ root' = ""
      /\ pc' = "m0"
      /\ UNCHANGED << ti, C, ideal, visited, nw, ew, nwc, ewc, tcd, retCycles, 
                      retErr, roots, inp, stack, nodeID, path, cycles, idx, 
                      outs, cur, edge, epath, isTC, tw, np >>

m2 == /\ pc = "m2"
      /\ IF result = "running"
            THEN /\ IF "EmptyWeightsAccepted" \notin Devs /\ \E n \in C.N : C.nt[n] = "rel" /\ DOMAIN nw[n] = {}
                       THEN /\ result' = "invalid:noterminal"
                       ELSE /\ result' = "ok"
            ELSE /\ TRUE
                 /\ UNCHANGED result
      /\ pc' = "m3"
      /\ UNCHANGED << ti, C, ideal, visited, nw, ew, nwc, ewc, tcd, retCycles, 
                      retErr, roots, root, evn, evbad, inp, stack, nodeID, 
                      path, cycles, idx, outs, cur, edge, epath, isTC, tw, np >>

m3 == /\ pc = "m3"
      /\ PrintT(ToJson([rec |-> "outcome", id |-> inp.id, roots |-> roots, out |-> Outcome(C, result, nw, ew, nwc, ewc), evn |-> evn, evbad |-> evbad,
                        evall |-> (~HasEvents(inp) \/ evn = Len(inp.events))]))
      /\ pc' = "Done"
      /\ UNCHANGED << ti, C, ideal, visited, nw, ew, nwc, ewc, tcd, retCycles, 
                      retErr, roots, root, result, evn, evbad, inp, stack, 
                      nodeID, path, cycles, idx, outs, cur, edge, epath, isTC, 
                      tw, np >>

(* Allow infinite stuttering to prevent deadlock on termination. *)
Terminating == pc = "Done" /\ UNCHANGED vars

Next == CalcNode \/ CalcEdge \/ mi \/ mb \/ m0 \/ m0b \/ m1 \/ m2 \/ m3
           \/ Terminating

Spec == Init /\ [][Next]_vars

Termination == <>(pc = "Done")

\* END TRANSLATION

(***************************************************************************)
(* 5. Properties (evaluated in terminal states of the DFS)                 *)
(***************************************************************************)
\* VIEW: the history of chosen roots, and C / ideal (functions of ti) are left out, so that root orders which lead to
\* the same DFS state are merged; every distinct outcome keeps one witness order in `roots`
View == <<ti, visited, nw, ew, nwc, ewc, tcd, retCycles, retErr, root, result, pc, stack,
          nodeID, path, cycles, idx, outs, cur, edge, epath, isTC, tw, np>>
Done == pc = "Done"
Accepted == result = "ok"
ImplOut == Outcome(C, result, nw, ew, nwc, ewc)
TypeWeights(S) == { <<x[1], x[3], x[4]>> : x \in { y \in S : y[2] = "T" } }     \* drop the key tag
TypeWeightsE(S) == { <<x[1], x[2], x[4], x[5]>> : x \in { y \in S : y[3] = "T" } }

\* C05: accepted iff well-founded - up to the recorded findings D11 (an operand made of several edges under AND / BUT NOT)
\* and D16 (re-seeded intersection)
AcceptIffWellFounded == Done => (Accepted <=> ideal.reasons = {}) \/ KnownClass(C)
\* a model with a tuple-free rewrite cycle is never accepted, whatever else it contains (no exception)
RewriteCycleNeverAccepted == Done /\ "rewritecycle" \in ideal.reasons => ~Accepted
\* C04
NoPlaceholderVisible == Done /\ Accepted => (\A x \in ImplOut.nw : x[2] = "T") /\ (\A x \in ImplOut.ew : x[3] = "T")
NoEmptyWeights == Done /\ Accepted => \A n \in C.N : C.nt[n] = "rel" => DOMAIN nw[n] # {}
WeightsAreTrueMaxHops == Done /\ Accepted /\ ideal.reasons = {} =>
                            TypeWeights(ImplOut.nw) = ideal.tw \/ KnownClass(C)
EdgeWeightIsTargetPlusHop == Done /\ Accepted /\ ideal.reasons = {} =>
                            TypeWeightsE(ImplOut.ew) = ideal.ew \/ KnownClass(C)
\* C11
WildcardsAreReachablePublicTypes == Done /\ Accepted => ImplOut.nwc = ideal.wild /\ ImplOut.ewc = ideal.ewild
\* trace validation at event level: behaviours that have parted from the logged events are not the run that was recorded
EvOK == evbad = 0
TraceView == <<View, evn, evbad>>

=============================================================================
