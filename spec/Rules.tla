-------------------------------- MODULE Rules --------------------------------
(***************************************************************************)
(* Tuple-field validators: pkg/go/validation/validation-rules.go (C18).    *)
(*                                                                         *)
(* Strings are sequences of CHARACTER-CLASS symbols - one symbol per class *)
(* of characters the rules distinguish (the harness instantiates every     *)
(* symbol with several concrete characters):                               *)
(*   ":" "#" "@" "*"   themselves                                          *)
(*   " " "T" "N"       whitespace: blank, tab, newline (\s of RE2)         *)
(*   "a"               letters and digits                                  *)
(*   "_"               the punctuation the id rule allows:  _ | . +        *)
(*   "-"               any other ASCII (- / ! $ ...)                       *)
(*   "U"               non-ASCII (multi-byte) characters                   *)
(* Impl layer : the five rule strings transcribed as regular-expression    *)
(*              items and a backtracking matcher, composed per validator   *)
(*              exactly like the fmt.Sprintf patterns of the code.         *)
(* Ideal layer: what C18 says about accepted strings, as predicates.       *)
(***************************************************************************)
EXTENDS Integers, Sequences, FiniteSets, TLC, Json

CONSTANTS MaxLen,        \* Enum: maximal string length
          EnumClasses    \* Enum: the class symbols used (a subset allows longer strings)

VARIABLE st

Classes == <<":", "#", "@", "*", " ", "T", "N", "a", "_", "-", "U">>
ClassSet == { Classes[i] : i \in 1..Len(Classes) }
Ws == {" ", "T", "N"}

(***************************************************************************)
(* Impl: the rule strings (as the regex engine sees them) and their items  *)
(***************************************************************************)
RuleSrc == [type |-> "[^:#@\\*\\s]{1,254}", relation |-> "[^:#@\\*\\s]{1,50}", condition |-> "[^\\*\\s]{1,50}",
            id |-> "[^#:\\s*][a-zA-Z0-9_|*@.+]*", object |-> "[^\\s]{2,256}"]
\* the composition patterns of the code (fmt.Sprintf / template literal / String.format), %s replaced by the rule name
PatternSet == {"^type:id$", "^object$", "^id$", "^relation$", "^type:id#relation$", "^type:\\*$", "^condition$", "^type$"}

Item(neg, set, lo, hi) == [neg |-> neg, set |-> set, lo |-> lo, hi |-> hi]
Lit(c) == <<Item(FALSE, {c}, 1, 1)>>
Many == 100000
RType == <<Item(TRUE, {":", "#", "@", "*"} \cup Ws, 1, 254)>>
RRelation == <<Item(TRUE, {":", "#", "@", "*"} \cup Ws, 1, 50)>>
RCondition == <<Item(TRUE, {"*"} \cup Ws, 1, 50)>>
RId == <<Item(TRUE, {"#", ":", "*"} \cup Ws, 1, 1), Item(FALSE, {"a", "_", "*", "@"}, 0, Many)>>
RObject == <<Item(TRUE, Ws, 2, 256)>>

Matches1(it, c) == IF it.neg THEN c \notin it.set ELSE c \in it.set
Min(a, b) == IF a <= b THEN a ELSE b
\* anchored match of the item sequence against s from position pos (backtracking over repetition counts)
RECURSIVE M(_, _, _, _)
M(items, i, s, pos) ==
  IF i > Len(items) THEN pos = Len(s) + 1
  ELSE LET it == items[i]
           avail == Len(s) - pos + 1
           \* longest run of matching characters from pos
           run == LET bad == { k \in 0..(avail - 1) : ~Matches1(it, s[pos + k]) } IN
                  IF bad = {} THEN avail ELSE CHOOSE k \in bad : \A j \in bad : k <= j
           hi == Min(Min(it.hi, avail), run)
       IN \E k \in it.lo..hi : M(items, i + 1, s, pos + k)
Full(items, s) == M(items, 1, s, 1)

V_Object(s) == Full(RType \o Lit(":") \o RId, s) /\ Full(RObject, s)
V_ObjectID(s) == Full(RId, s)
V_Relation(s) == Full(RRelation, s)
V_UserSet(s) == Full(RType \o Lit(":") \o RId \o Lit("#") \o RRelation, s)
V_UserObject(s) == Full(RType \o Lit(":") \o RId, s) /\ Full(RObject, s)
V_UserWildcard(s) == Full(RType \o Lit(":") \o Lit("*"), s)
V_User(s) == V_UserSet(s) \/ V_Object(s) \/ V_UserWildcard(s)
V_Condition(s) == Full(RCondition, s)
V_Type(s) == Full(RType, s)
Verdicts(s) == [object |-> V_Object(s), objectid |-> V_ObjectID(s), relation |-> V_Relation(s), userset |-> V_UserSet(s),
                userobject |-> V_UserObject(s), userwildcard |-> V_UserWildcard(s), user |-> V_User(s),
                condition |-> V_Condition(s), type |-> V_Type(s)]

(***************************************************************************)
(* Ideal: what C18 states                                                  *)
(***************************************************************************)
Splits(s, c) == { i \in 1..Len(s) : s[i] = c }
Count(s, c) == Cardinality(Splits(s, c))
NoWs(s) == \A i \in 1..Len(s) : s[i] \notin Ws
NoSep(s) == \A i \in 1..Len(s) : s[i] \notin {":", "#", "@", "*"}
\* object: exactly one ':' and splits there into an accepted type and an accepted object id
ObjDecomposes(s) == Count(s, ":") = 1 /\ LET i == CHOOSE k \in Splits(s, ":") : TRUE IN
                       V_Type(SubSeq(s, 1, i - 1)) /\ V_ObjectID(SubSeq(s, i + 1, Len(s)))
\* userset: additionally exactly one '#' followed by an accepted relation
UsDecomposes(s) == Count(s, ":") = 1 /\ Count(s, "#") = 1 /\
                   LET i == CHOOSE k \in Splits(s, ":") : TRUE
                       j == CHOOSE k \in Splits(s, "#") : TRUE
                   IN i < j /\ V_Type(SubSeq(s, 1, i - 1)) /\ V_ObjectID(SubSeq(s, i + 1, j - 1)) /\ V_Relation(SubSeq(s, j + 1, Len(s)))

UniqueDecomposition(s) == (V_Object(s) => ObjDecomposes(s)) /\ (V_UserObject(s) => ObjDecomposes(s)) /\ (V_UserSet(s) => UsDecomposes(s))
UserExactlyOneKind(s) == V_User(s) => Cardinality({ k \in {"us", "obj", "wild"} :
                            (k = "us" /\ V_UserSet(s)) \/ (k = "obj" /\ V_Object(s)) \/ (k = "wild" /\ V_UserWildcard(s)) }) = 1
NoSeparatorInParts(s) == /\ (V_Type(s) \/ V_Relation(s)) => NoWs(s) /\ NoSep(s)
                         /\ V_ObjectID(s) => NoWs(s)
LimitsExact(s) == /\ V_Type(s) => Len(s) \in 1..254
                  /\ V_Relation(s) => Len(s) \in 1..50
                  /\ V_Condition(s) => Len(s) \in 1..50
                  /\ V_Object(s) => Len(s) \in 2..256
                  \* and the limits are reached: a string of allowed characters of exactly the limit is accepted
                  /\ (NoWs(s) /\ NoSep(s) /\ Len(s) \in 1..254) => V_Type(s)
                  /\ (NoWs(s) /\ NoSep(s) /\ Len(s) \in 1..50) => V_Relation(s)
                  /\ ((\A i \in 1..Len(s) : s[i] \notin {"*"} \cup Ws) /\ Len(s) \in 1..50) => V_Condition(s)
AllProps(s) == UniqueDecomposition(s) /\ UserExactlyOneKind(s) /\ NoSeparatorInParts(s) /\ LimitsExact(s)

(***************************************************************************)
(* Enumeration 1: every class string up to MaxLen                          *)
(***************************************************************************)
RECURSIVE JoinS(_, _)
JoinS(s, i) == IF i > Len(s) THEN "" ELSE s[i] \o JoinS(s, i + 1)
Rec(s) == [rec |-> "str", s |-> JoinS(s, 1), n |-> Len(s), v |-> Verdicts(s)]

EnumInit == st = <<>>
EnumNext == /\ Len(st) < MaxLen
            /\ \E c \in EnumClasses : st' = Append(st, c)
            /\ PrintT(ToJson(Rec(st')))
EnumOK == AllProps(st)

(***************************************************************************)
(* Enumeration 2: boundary lengths, run-length encoded <<[c, n]>>          *)
(***************************************************************************)
RECURSIVE Expand(_, _)
Expand(rle, i) == IF i > Len(rle) THEN <<>> ELSE [k \in 1..rle[i].n |-> rle[i].c] \o Expand(rle, i + 1)
Run(c, n) == [c |-> c, n |-> n]
Fill == {"a", "U", "-"}
Boundaries ==
     { <<Run(f, n)>> : f \in Fill, n \in {1, 49, 50, 51, 253, 254, 255, 256, 257} }                          \* type / relation / condition / id
\cup { <<Run(f, n), Run(":", 1), Run("a", m)>> : f \in Fill, n \in {1, 253, 254, 255}, m \in {1, 2, 3} }      \* objects around 256 and type limit
\cup { <<Run("a", k), Run(":", 1), Run(f, 256 - k - 1 + d)>> : f \in {"a", "_"}, k \in {1, 100, 254}, d \in {-1, 0, 1} }   \* total length 255 / 256 / 257
\cup { <<Run("a", 1), Run(":", 1), Run("U", 1), Run("a", 253 + d)>> : d \in {-1, 0, 1} }
\cup { <<Run("a", 3), Run(":", 1), Run("a", 2), Run("#", 1), Run(f, n)>> : f \in Fill, n \in {49, 50, 51} }   \* userset relation limit
\cup { <<Run(f, n), Run(":", 1), Run("*", 1)>> : f \in Fill, n \in {253, 254, 255} }                          \* typed wildcard
\cup { <<Run("a", 1)>>, <<Run(":", 1), Run("a", 1)>>, <<Run("a", 1), Run(":", 1)>> }                          \* object minimum
\* one below every lower bound: the empty string, and strings one of whose parts is empty
\cup { <<>>, <<Run(":", 1)>>, <<Run("#", 1)>>, <<Run("*", 1)>>, <<Run(":", 1), Run("*", 1)>>, <<Run("a", 1), Run(":", 1), Run("a", 1), Run("#", 1)>>,
       <<Run("#", 1), Run("a", 1)>>, <<Run("a", 1), Run("#", 1), Run("a", 1)>>, <<Run(":", 1), Run("a", 1), Run("#", 1), Run("a", 1)>>, <<Run("a", 1), Run(":", 1), Run("#", 1), Run("a", 1)>> }
BRec(rle) == LET s == Expand(rle, 1) IN [rec |-> "rle", rle |-> rle, n |-> Len(s), v |-> Verdicts(s)]

BoundInit == st \in Boundaries /\ PrintT(ToJson(BRec(st)))
BoundNext == FALSE /\ st' = st
BoundOK == AllProps(Expand(st, 1))

(***************************************************************************)
(* Configuration trace: the rule strings and composition patterns logged   *)
(* from the Go, TypeScript and Java sources                                *)
(***************************************************************************)
Logged == ndJsonDeserialize("rules_logged.ndjson")
CfgInit == st \in 1..Len(Logged)
CfgNext == FALSE /\ st' = st
\* every language package carries exactly the rule strings this specification was transcribed from ...
RuleStringsAgree == LET L == Logged[st] IN
                      L.kind = "rule" => (L.name \in DOMAIN RuleSrc /\ L.value = RuleSrc[L.name])
\* ... and composes them in the same way (as a set of anchored patterns per language)
PatternsAgree == LET L == Logged[st] IN L.kind = "pattern" => L.value \in PatternSet
Langs == {"go", "js", "java"}
AllLogged == /\ \A l \in Langs : \A r \in DOMAIN RuleSrc : \E i \in 1..Len(Logged) : Logged[i].kind = "rule" /\ Logged[i].lang = l /\ Logged[i].name = r
             /\ \A l \in Langs : \A q \in PatternSet : \E i \in 1..Len(Logged) : Logged[i].kind = "pattern" /\ Logged[i].lang = l /\ Logged[i].value = q
=============================================================================
