------------------------------ MODULE MergeSteps ------------------------------
(***************************************************************************)
(* Event-level trace validation of the module merger (Impl layer of        *)
(* spec/Merge.tla against TransformModuleFilesToModel).                    *)
(*                                                                         *)
(* The verif hook VerifMergeTrace logs one event per DECISION of the       *)
(* merger, in the order it takes them:                                     *)
(*   file <name> ok|syntax            type <name> dup|ext|new|notmodule    *)
(*   cond <name> dup|notmodule|new    extfile <name>                       *)
(*   exttype <type> missing|adopt|merge    extrel <type> <rel> dup|add     *)
(* Every line of merge_steps.ndjson is [id, files (abstract), events].     *)
(* A trace step is the Impl action of Merge.tla conjoined with the event:  *)
(* the event names which element of a ranged collection the code took      *)
(* (resolving Pick / PickFile) and the branch it went into, which must be  *)
(* the branch the specification takes in its current state.  The loop over *)
(* the type definitions of one file is one Impl action (TypeLoop): its     *)
(* `type` events are consumed together with the `file` event.  Steps of    *)
(* the state machine without a decision (EndConds, EndExtRels, ...) are    *)
(* silent.  Acceptance: StepsAccepted (all events consumed when done) and  *)
(* StepsNotStuck.                                                          *)
(***************************************************************************)
EXTENDS Merge
StepTraces == ndJsonDeserialize("merge_steps.ndjson")
StepSetAt(i) == [id |-> StepTraces[i].id, files |-> StepTraces[i].files]
StepNumSets == Len(StepTraces)

VARIABLE tl
svars == <<vars, tl>>
Evs == StepTraces[gi].events
E == Evs[tl]
Has(ev) == tl <= Len(Evs) /\ E.ev = ev

\* the branch the first loop takes for every declaration of a file, given the type names collected so far
RECURSIVE TypeBranches(_, _, _)
TypeBranches(f, i, seen) ==
  IF i > Len(f.decls) THEN <<>>
  ELSE LET d == f.decls[i]
           extension == IF "ExtKeyedByTypeName" \in Devs THEN d.name \in ExtNames(f) ELSE d.kind = "ext"
       IN IF d.name \in Range(seen) /\ ~extension THEN <<[ev |-> "type", args |-> <<d.name, "dup">>]>> \o TypeBranches(f, i + 1, seen)
          ELSE IF extension THEN <<[ev |-> "type", args |-> <<d.name, "ext">>]>> \o TypeBranches(f, i + 1, seen)
          ELSE <<[ev |-> "type", args |-> <<d.name, IF MetaNil(f, d) THEN "notmodule" ELSE "new">>]>> \o TypeBranches(f, i + 1, Append(seen, d.name))

SInit == Init /\ tl = 1
SLoad == Load /\ UNCHANGED tl
SAnnounce == /\ pc = "announce" /\ pc' = "file" /\ UNCHANGED <<gi, inp, fi, remC, remF, curF, ti, remR, types, raw, ext, conds, errs, tl>>
SFile == /\ Has("file") /\ pc = "file" /\ fi <= Len(Files)
         /\ E.args[1] = F.name /\ E.args[2] = (IF ParseError(F) THEN "syntax" ELSE "ok")
         /\ LET want == IF ParseError(F) THEN <<>> ELSE TypeBranches(F, 1, types)
                n == Len(want)
            IN /\ tl + n <= Len(Evs)
               /\ \A k \in 1..n : Evs[tl + k].ev = "type" /\ Evs[tl + k].args = want[k].args
               /\ tl' = tl + 1 + n
         /\ DoFile
SCond == /\ Has("cond") /\ pc = "conds" /\ remC # {}
         /\ E.args[1] \in Pick(remC)
         /\ E.args[2] = (IF E.args[1] \in DOMAIN conds THEN "dup" ELSE IF ~Modular(F) THEN "notmodule" ELSE "new")
         /\ DoCond /\ remC' = remC \ {E.args[1]}
         /\ tl' = tl + 1
SExtFile == /\ Has("extfile") /\ PickExtFile /\ curF' = E.args[1] /\ tl' = tl + 1
SExtType == /\ Has("exttype") /\ pc = "exttype" /\ ti <= Len(ext[curF])
            /\ LET td == ext[curF][ti]
                   idx == RawIdx(td.name)
               IN /\ E.args[1] = td.name
                  /\ E.args[2] = (IF idx = 0 THEN "missing" ELSE IF DOMAIN raw[idx].rels = {} THEN "adopt" ELSE "merge")
            /\ ExtType /\ tl' = tl + 1
SExtRel == /\ Has("extrel") /\ pc = "extrels" /\ remR # {}
           /\ LET td == ext[curF][ti]
                  idx == RawIdx(td.name)
              IN /\ E.args[1] = td.name /\ E.args[2] \in Pick(remR)
                 /\ E.args[3] = (IF E.args[2] \in DOMAIN raw[idx].rels THEN "dup" ELSE "add")
           /\ ExtRel /\ remR' = remR \ {E.args[2]} /\ tl' = tl + 1
Silent == (EndConds \/ EndExtRels \/ EndExtType) /\ UNCHANGED tl
SFinish == /\ pc = "extfile" /\ remF = {} /\ pc' = "done" /\ UNCHANGED <<gi, inp, fi, remC, remF, curF, ti, remR, types, raw, ext, conds, errs, tl>>
SNext == SLoad \/ SAnnounce \/ SFile \/ SCond \/ SExtFile \/ SExtType \/ SExtRel \/ Silent \/ SFinish
SSpec == SInit /\ [][SNext]_svars

StepsAccepted == pc = "done" => tl = Len(Evs) + 1
StepsNotStuck == pc \notin {"done", "load"} => ENABLED SNext
\* the outcome the real merger returned for this very run is the Impl outcome reached by the logged steps (a file that does not parse
\* contributes one or more syntax errors, which carry no file: runs of them are compared as one entry)
RECURSIVE Collapse(_, _)
Collapse(es, i) == IF i > Len(es) THEN <<>>
                   ELSE IF i > 1 /\ es[i][1] = "syntax" /\ es[i - 1][1] = "syntax" THEN Collapse(es, i + 1)
                   ELSE <<es[i]>> \o Collapse(es, i + 1)
StepsResultOK == pc = "done" => /\ StepTraces[gi].result = ImplResult
                                /\ (ImplResult = "err" => Collapse(StepTraces[gi].errs, 1) = Collapse([i \in 1..Len(errs) |-> <<errs[i][1], errs[i][2], errs[i][3]>>], 1))
=============================================================================
