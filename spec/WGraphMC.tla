------------------------------ MODULE WGraphMC ------------------------------
(***************************************************************************)
(* Bounded universe of authorization models for exhaustive checking of     *)
(* WGraph (all models of the universe x all DFS root orders).              *)
(* Frame:   user | grp {a: [user]; free relations when NFreeGrp}           *)
(*          doc  {a: [user], p: [doc], q: [doc, doc with c, grp], free relations}      *)
(* Free relations x, y (, z) of type doc take every shape of a menu.       *)
(***************************************************************************)
EXTENDS WGraph

CONSTANTS NFree,     \* number of free relations in doc (2 or 3)
          MenuSeq,   \* shape numbers the first free relation takes (a sequence: cfg constants are cheap to reference,
          Menu2Seq   \* shape numbers the other free relations take    zero-arity definitions are re-evaluated by TLC)

This == [k |-> "this"]
CU(r) == [k |-> "cu", rel |-> r]
TTU(r, ts) == [k |-> "ttu", rel |-> r, ts |-> ts]
Un(ch) == [k |-> "union", ch |-> ch]
In(ch) == [k |-> "inter", ch |-> ch]
Di(a, b) == [k |-> "diff", ch |-> <<a, b>>]
Ty(t) == [t |-> t, kind |-> "type", rel |-> "", cond |-> ""]
Wi(t) == [t |-> t, kind |-> "wild", rel |-> "", cond |-> ""]
Us(t, r) == [t |-> t, kind |-> "uset", rel |-> r, cond |-> ""]
TyC(t, c) == [t |-> t, kind |-> "type", rel |-> "", cond |-> c]

\* shape i for relation `s` with neighbours o1, o2 (other free relations, cyclically)
Shape(i, s, o1, o2) ==
  CASE i = 1  -> [rw |-> This, restr |-> <<Ty("user")>>]
    [] i = 2  -> [rw |-> This, restr |-> <<Ty("user"), Wi("user")>>]
    [] i = 3  -> [rw |-> This, restr |-> <<Ty("user"), Us("grp", "a")>>]
    [] i = 4  -> [rw |-> This, restr |-> <<Ty("user"), Us("doc", o1)>>]
    [] i = 5  -> [rw |-> This, restr |-> <<Us("doc", s), Ty("grp")>>]
    [] i = 6  -> [rw |-> CU(o1), restr |-> <<>>]
    [] i = 7  -> [rw |-> CU(s), restr |-> <<>>]
    [] i = 8  -> [rw |-> Un(<<This, TTU(s, "p")>>), restr |-> <<Ty("user")>>]
    [] i = 9  -> [rw |-> TTU(o1, "p"), restr |-> <<>>]
    [] i = 10 -> [rw |-> TTU(s, "p"), restr |-> <<>>]
    [] i = 11 -> [rw |-> Un(<<This, CU(o1)>>), restr |-> <<Wi("grp")>>]
    [] i = 12 -> [rw |-> In(<<This, CU(o1)>>), restr |-> <<Ty("user"), Ty("grp")>>]
    [] i = 13 -> [rw |-> Di(This, CU(o1)), restr |-> <<Ty("user")>>]
    [] i = 14 -> [rw |-> In(<<This, TTU("a", "q")>>), restr |-> <<Ty("user")>>]
    [] i = 15 -> [rw |-> Di(This, TTU("a", "q")), restr |-> <<Ty("user"), Wi("user")>>]
    [] i = 16 -> [rw |-> Un(<<CU(o1), In(<<This, CU(o2)>>)>>), restr |-> <<Ty("user")>>]
    [] i = 17 -> [rw |-> Un(<<This, CU(o1), TTU(o2, "p")>>), restr |-> <<Us("doc", o2), TyC("user", "c")>>]
    [] i = 18 -> [rw |-> In(<<CU(o1), CU(o2)>>), restr |-> <<>>]
    [] i = 19 -> [rw |-> Di(CU(o1), This), restr |-> <<Ty("user"), Ty("grp")>>]
    [] i = 20 -> [rw |-> Un(<<TTU(s, "p"), CU(o1)>>), restr |-> <<>>]
    [] i = 21 -> [rw |-> This, restr |-> <<Wi("user"), Us("doc", s), Wi("grp")>>]          \* public types around a self userset
    [] i = 22 -> [rw |-> This, restr |-> <<Wi("user"), Us("doc", o1), Wi("grp"), Ty("user")>>]  \* ... around a userset cycle
    [] i = 24 -> [rw |-> In(<<This, CU(o1), CU(o1)>>), restr |-> <<Ty("grp")>>]                 \* three single-edge operands (D16 when o1 has no grp)
    [] i = 25 -> [rw |-> Di(This, CU(o1)), restr |-> <<Ty("grp"), Us("doc", o1)>>]             \* a base edge into the subtracted relation
    [] i = 26 -> [rw |-> Un(<<This, TTU(o1, "p"), CU(o1)>>), restr |-> <<Ty("user")>>]          \* TTU and rewrite edge to one relation
    [] i = 27 -> [rw |-> Un(<<CU(o1), This>>), restr |-> <<Us("doc", s), Us("doc", o1)>>]       \* nested tuple cycles
    [] i = 28 -> [rw |-> In(<<TTU(o1, "p"), TTU("a", "p")>>), restr |-> <<>>]                   \* two operands over one tupleset
    [] i = 29 -> [rw |-> Di(TTU(o1, "p"), TTU("a", "p")), restr |-> <<>>]
    [] i = 30 -> [rw |-> In(<<Un(<<CU(o1), In(<<CU(o2), This>>)>>), Un(<<CU(o2), In(<<CU(o1), This>>)>>)>>),  \* three operators deep:
                  restr |-> <<Ty("user")>>]                                                     \* same kind, same depth, same position
    [] i = 31 -> [rw |-> Un(<<This, TTU("a", o1)>>), restr |-> <<Ty("user")>>]                  \* a free relation as tupleset: without type restrictions
    [] i = 32 -> [rw |-> Di(This, TTU("a", o1)), restr |-> <<Ty("user")>>]                      \* when it is a rewrite (shapes 6, 9, 18, 28, 29)
    [] i = 33 -> [rw |-> Un(<<TTU(o1, "p"), This, TTU(o1, "p")>>), restr |-> <<Ty("user")>>]    \* one tuple-to-userset twice among the operands (D23)
    [] i = 34 -> [rw |-> In(<<This, CU("a")>>), restr |-> <<Ty("user"), Ty("grp"), Us("grp", "a")>>]   \* the FIRST operand reaches more types, and deeper, than a later one
    [] i = 35 -> [rw |-> Un(<<This, TTU(s, "p"), TTU(s, o1)>>), restr |-> <<Ty("user")>>]        \* recursion through two tuplesets: parallel TTU edges inside a cycle
    [] i = 36 -> [rw |-> This, restr |-> <<Ty("doc")>>]                                          \* (a second tupleset with parent doc)
    \* operators of one kind at the same depth (2 below the root) and the same operand position under different parents, whose operands reach
    \* DIFFERENT user types (o1 taking shape 39 reaches grp only): whether the two are told apart decides the verdict, in both directions
    [] i = 37 -> [rw |-> In(<<In(<<This, Un(<<CU("a"), CU("a")>>)>>), In(<<Un(<<CU("a"), CU(o1)>>), Un(<<CU(o1), CU(o1)>>)>>)>>), restr |-> <<Ty("user"), Ty("grp")>>]
    [] i = 38 -> [rw |-> In(<<Un(<<This, In(<<CU("a"), CU("a")>>)>>), Un(<<CU("a"), In(<<CU(o1), CU(o1)>>)>>)>>), restr |-> <<Ty("user")>>]
    [] i = 39 -> [rw |-> This, restr |-> <<Ty("grp")>>]
    [] i = 40 -> [rw |-> This, restr |-> <<Ty("doc"), Ty("ghost")>>]                              \* a tupleset (for shape 31 / 32) that admits a type the model does not declare
    [] i = 41 -> [rw |-> Un(<<This, TTU("a", o1)>>), restr |-> <<Ty("ghost")>>]                   \* ... and a direct restriction to it
    [] i = 42 -> [rw |-> This, restr |-> <<Us("doc", o1), Us("doc", o2)>>]                        \* two usersets: a cycle member with a way out
    [] i = 43 -> [rw |-> In(<<This, CU("a")>>), restr |-> <<Ty("grp")>>]                          \* no common user type (reached from inside an open cycle when 42 points here)
    \* operators with ONE operand (JSON / protobuf only): every operator occurrence is a node of its own, also when it has a single child
    [] i = 44 -> [rw |-> Un(<<This>>), restr |-> <<Ty("user")>>]
    [] i = 45 -> [rw |-> In(<<CU(o1)>>), restr |-> <<>>]
    [] i = 46 -> [rw |-> Un(<<In(<<This>>), Un(<<CU(o1)>>), In(<<TTU("a", "p")>>)>>), restr |-> <<Ty("user"), Wi("user")>>]
    \* a direct userset edge and a rewrite edge from one operator to one relation (the edge kinds tell them apart, whichever comes first:
    \* the operand permutations of C06 put the computed userset in front of the direct assignment)
    [] i = 47 -> [rw |-> Un(<<This, CU(o1)>>), restr |-> <<Ty("user"), Us("doc", o1)>>]
    [] i = 48 -> [rw |-> In(<<This, CU(o1)>>), restr |-> <<Us("doc", o1), Ty("user")>>]
    [] i = 23 -> [rw |-> Un(<<TTU("a", "q"), This>>), restr |-> <<TyC("user", "c"), Ty("user"), Wi("user")>>]

FreeNames == IF NFree = 2 THEN <<"x", "y">> ELSE <<"x", "y", "z">>
Other(i, d) == FreeNames[((i - 1 + d) % NFree) + 1]
Rel(name, sh) == [name |-> name, rw |-> sh.rw, restr |-> sh.restr]
ModelOf(choice) ==     \* choice: function 1..NFree -> Menu
  [types |-> <<
     [name |-> "doc", rels |-> <<Rel("a", Shape(1, "a", "a", "a")),
                                 [name |-> "p", rw |-> This, restr |-> <<Ty("doc")>>],
                                 [name |-> "q", rw |-> This, restr |-> <<Ty("doc"), TyC("doc", "c"), Ty("grp")>>]>>
                              \o [i \in 1..NFree |-> Rel(FreeNames[i], Shape(choice[i], FreeNames[i], Other(i, 1), Other(i, 2)))]],
     [name |-> "grp", rels |-> <<Rel("a", Shape(1, "a", "a", "a"))>>],
     [name |-> "user", rels |-> <<>>]>>]

RECURSIVE Digits(_, _)
Digits(c, i) == IF i > NFree THEN "" ELSE ToString(c[i]) \o (IF i < NFree THEN "." ELSE "") \o Digits(c, i + 1)
K == Len(MenuSeq)
K2 == Len(Menu2Seq)
RECURSIVE Pow(_, _)
Pow(b, e) == IF e = 0 THEN 1 ELSE b * Pow(b, e - 1)
\* choice number i: the first free relation ranges over Menu, the others over Menu2
ChoiceNo(i) == [j \in 1..NFree |-> IF j = 1 THEN MenuSeq[((i - 1) % K) + 1]
                                    ELSE Menu2Seq[((((i - 1) \div K) \div Pow(K2, j - 2)) % K2) + 1]]
MCInputs == [i \in 1..(K * Pow(K2, NFree - 1)) |-> [id |-> "u" \o Digits(ChoiceNo(i), 1), m |-> ModelOf(ChoiceNo(i))]]

(***************************************************************************)
(* A second frame: seven user types; doc#x lists k public restrictions,    *)
(* doc#p and doc#q both continue x's list (q directly or through p) with   *)
(* one more public type each.  Lists of 3..7 entries merged into several   *)
(* parents: the property speaks of sets, the code stores lists, and which  *)
(* parent a list was handed to first depends on the root order.            *)
(***************************************************************************)
PubTypes == <<"t1", "t2", "t3", "t4", "t5", "t6", "t7">>
PubModel(k, i, j, chain) ==
  [types |-> <<[name |-> "doc", rels |-> <<
       [name |-> "p", rw |-> This, restr |-> <<Us("doc", "x"), Wi(PubTypes[i])>>],
       [name |-> "q", rw |-> This, restr |-> <<Us("doc", IF chain = 1 THEN "p" ELSE "x"), Wi(PubTypes[j])>>],
       [name |-> "x", rw |-> This, restr |-> [n \in 1..k |-> Wi(PubTypes[n])]]>>]>>
     \o [n \in 1..7 |-> [name |-> PubTypes[n], rels |-> <<>>]]]
PubInputs == [n \in 1..(5 * 7 * 7 * 2) |->
   LET k == ((n - 1) % 5) + 1
       i == (((n - 1) \div 5) % 7) + 1
       j == (((n - 1) \div 35) % 7) + 1
       c == ((n - 1) \div 245) % 2
   IN [id |-> "pub" \o ToString(k) \o "." \o ToString(i) \o "." \o ToString(j) \o "." \o ToString(c), m |-> PubModel(k, i, j, c)]]

(***************************************************************************)
(* A third frame: what an operand is.  doc#nb combines doc#member with an  *)
(* operand made of SEVERAL edges whose targets reach DIFFERENT user types  *)
(* (a tuple-to-userset over a tupleset with two parent types, or a direct  *)
(* list of two usersets): one of folder#blocked / org#blocked reaches user, the other emp.    *)
(* doc#r combines doc#nb with doc#staff.  A type that only some edge of    *)
(* the subtracted / intersected operand reaches must not leak into nb,     *)
(* nor must one get lost; whether r is accepted hangs on exactly that.     *)
(***************************************************************************)
OpOf(o, side, A, B) == IF o = "diff" THEN (IF side = 1 THEN Di(A, B) ELSE Di(B, A))
                       ELSE [k |-> o, ch |-> IF side = 1 THEN <<A, B>> ELSE <<B, A>>]
OpModel(staff, o1, s1, o2, flip, kind) ==
  LET sub == IF kind = 1 THEN TTU("blocked", "parent") ELSE This
      nbrestr == IF kind = 1 THEN <<>> ELSE <<Us("folder", "blocked"), Us("org", "blocked")>>
  IN [types |-> <<
       [name |-> "doc", rels |-> <<
          [name |-> "member", rw |-> This, restr |-> <<Ty("user")>>],
          [name |-> "nb", rw |-> OpOf(o1, s1, CU("member"), sub), restr |-> nbrestr],
          [name |-> "parent", rw |-> This, restr |-> <<Ty("folder"), Ty("org")>>],
          [name |-> "r", rw |-> OpOf(o2, 1, CU("nb"), CU("staff")), restr |-> <<>>],
          [name |-> "staff", rw |-> This, restr |-> staff]>>],
       [name |-> "emp", rels |-> <<>>],
       \* (flip: which of the two parents - the one listed first or the one listed last - reaches the type member does not)
       [name |-> "folder", rels |-> <<[name |-> "blocked", rw |-> This, restr |-> <<Ty(IF flip = 1 THEN "user" ELSE "emp")>>]>>],
       [name |-> "org", rels |-> <<[name |-> "blocked", rw |-> This, restr |-> <<Ty(IF flip = 1 THEN "emp" ELSE "user")>>]>>],
       [name |-> "user", rels |-> <<>>]>>]
OpKinds == <<"diff", "inter", "union">>
OpInputs == [n \in 1..(2 * 3 * 2 * 3 * 2 * 2) |->
   LET st == (n - 1) % 2
       o1 == OpKinds[(((n - 1) \div 2) % 3) + 1]
       s1 == (((n - 1) \div 6) % 2) + 1
       o2 == OpKinds[(((n - 1) \div 12) % 3) + 1]
       flip == (((n - 1) \div 36) % 2) + 1
       kind == (((n - 1) \div 72) % 2) + 1
   IN [id |-> "op" \o ToString(n), m |-> OpModel(IF st = 0 THEN <<Ty("emp")>> ELSE <<Ty("user"), Ty("emp")>>, o1, s1, o2, flip, kind)]]
=============================================================================
