------------------------------- MODULE DslWalk -------------------------------
(***************************************************************************)
(* The callback sequence of the parse-tree walk (C03, C09; Impl side).     *)
(*                                                                         *)
(* antlr.ParseTreeWalkerDefault.Walk visits the parse tree of a document   *)
(* depth first; the listener of pkg/go/transformer/dsltojson.go implements *)
(* 20 of the Enter/Exit callbacks.  DocEv(D) is that callback sequence for *)
(* a GRAMMATICAL document D (the document shape of DslLayout), rule by     *)
(* rule of OpenFGAParser.g4, in the format the verif hook VerifDocTrace    *)
(* logs: [ev, args] with args = what the callback reads from its context.  *)
(* Positions (the last two args of the callbacks that can raise an error)  *)
(* depend on the layout and are written "?" here.                          *)
(*                                                                         *)
(* Alternatives of the grammar that overlap are resolved the way ANTLR     *)
(* resolves an ambiguity, to the first alternative:                        *)
(*   relationRecurse         : '(' (relationDef | relationRecurseNoDirect) ')' *)
(*   relationRecurseNoDirect : '(' (relationDefNoDirect | relationRecurseNoDirect) ')' *)
(* always continue with relationDef / relationDefNoDirect.  A relationDef  *)
(* is first-operand (relationDefPartials)? ; the first operand may be a    *)
(* direct assignment or a relationRecurse (no Enter callback, ExitRecurse),*)
(* every later operand is a rewrite or a relationRecurseNoDirect           *)
(* (EnterRecurseND ... ExitRecurseND); EnterPartials fires when the walk   *)
(* enters relationDefPartials, i.e. after the first operand.               *)
(***************************************************************************)
EXTENDS DslLayout

NilS == "<nil>"
Ev(ev, args) == [ev |-> ev, args |-> args]
BoolS(b) == IF b THEN "true" ELSE "false"
RECURSIVE Cat(_, _)
Cat(ss, i) == IF i > Len(ss) THEN <<>> ELSE ss[i] \o Cat(ss, i + 1)

RestrEv(x) == Ev("ExitRestriction", <<x.t, IF x.kind = "uset" THEN x.rel ELSE NilS, BoolS(x.kind = "wild"), IF x.cond = "" THEN NilS ELSE x.cond>>)

RECURSIVE DefEv(_, _, _)
RECURSIVE OperandEv(_, _, _)
OperandEv(c, restr, direct) ==
  CASE c.k = "this" -> <<Ev("EnterDirect", <<>>)>> \o [i \in 1..Len(restr) |-> RestrEv(restr[i])] \o <<Ev("ExitDirect", <<>>)>>
    [] c.k = "cu" -> <<Ev("ExitRewrite", <<c.rel, "", "false">>)>>
    [] c.k = "ttu" -> <<Ev("ExitRewrite", <<c.rel, c.ts, "true">>)>>
    [] OTHER -> LET inner == IF c.k = "par" THEN c.ch[1] ELSE c      \* an operator as operand is written in parentheses
                IN IF direct THEN DefEv(inner, restr, TRUE) \o <<Ev("ExitRecurse", <<>>)>>
                   ELSE <<Ev("EnterRecurseND", <<>>)>> \o DefEv(inner, restr, FALSE) \o <<Ev("ExitRecurseND", <<>>)>>
DefEv(t, restr, direct) ==
  IF t.k \in {"union", "inter", "diff"}
  THEN OperandEv(t.ch[1], restr, direct) \o <<Ev("EnterPartials", <<OpLex(t.k)>>)>>
       \o Cat([i \in 1..(Len(t.ch) - 1) |-> OperandEv(t.ch[i + 1], restr, FALSE)], 1)
  ELSE OperandEv(t, restr, direct)

RelEv(r, ext) == <<Ev("EnterRelDecl", <<>>)>> \o DefEv(r.rw, r.restr, TRUE) \o <<Ev("ExitRelDecl", <<r.name, BoolS(ext), "?", "?">>)>>
TypeEv(t) == <<Ev("EnterTypeDef", <<t.name, BoolS(t.ext), "?", "?">>)>>
             \o Cat([i \in 1..Len(t.rels) |-> RelEv(t.rels[i], t.ext)], 1)
             \o <<Ev("ExitTypeDef", <<t.name, BoolS(t.ext), "?", "?">>)>>
\* parameterType: CONDITION_PARAM_TYPE | CONDITION_PARAM_CONTAINER '<' CONDITION_PARAM_TYPE '>' ; the hook logs the text, the container token, the type token
RECURSIVE FirstLt(_, _)
FirstLt(ty, i) == IF i > Len(ty) THEN 0 ELSE IF SubSeq(ty, i, i) = "<" THEN i ELSE FirstLt(ty, i + 1)
ParamEv(p) == LET lt == FirstLt(p.ty, 1) IN
              Ev("ExitConditionParameter", IF lt = 0 THEN <<p.name, p.ty, NilS, p.ty, "?", "?">>
                                           ELSE <<p.name, p.ty, SubSeq(p.ty, 1, lt - 1), SubSeq(p.ty, lt + 1, Len(p.ty) - 1), "?", "?">>)
CondEv(c) == <<Ev("EnterCondition", <<c.name, "?", "?">>)>> \o [i \in 1..Len(c.params) |-> ParamEv(c.params[i])]
             \o <<Ev("ExitConditionExpression", <<c.expr>>), Ev("ExitCondition", <<>>)>>
HeaderEv(D) == CASE D.header = "model" -> <<Ev("ExitModelHeader", <<D.schema>>)>>
                 [] D.header = "module" -> <<Ev("ExitModuleHeader", <<D.module>>)>>
DocEv(D) == <<Ev("EnterMain", <<>>)>> \o HeaderEv(D)
            \o Cat([i \in 1..Len(D.types) |-> TypeEv(D.types[i])], 1)
            \o <<Ev("EnterConditions", <<>>)>>
            \o Cat([i \in 1..Len(D.conds) |-> CondEv(D.conds[i])], 1)
=============================================================================
