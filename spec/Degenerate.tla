------------------------------ MODULE Degenerate ------------------------------
(***************************************************************************)
(* C08, part b: structurally valid protobuf models with missing optional   *)
(* parts.  A degenerate model = a base model + a set of at most MaxHoles   *)
(* "holes", each a pair <<kind, site>>; the harness punches the hole into  *)
(* the protobuf value (harness/c08.go names the same kinds).  Every public *)
(* entry point that takes a model must return a result or an error for     *)
(* every one of them: the specification's claim is simply                  *)
(*      Outcome(entry, model) \in {"ok", "error"}                          *)
(***************************************************************************)
EXTENDS Integers, Sequences, FiniteSets, TLC, Json
CONSTANTS MaxHoles, Bases
VARIABLE st
Kinds == <<"userset_nil", "userset_empty_oneof", "union_nil_usersets", "union_no_children", "union_nil_child", "inter_no_children",
           "diff_nil", "diff_no_base", "diff_no_subtract", "ttu_nil", "ttu_no_tupleset", "ttu_no_computed", "cu_nil",
           "type_metadata_nil", "relations_metadata_nil", "relation_metadata_missing", "relation_metadata_nil_value", "restriction_nil", "restriction_no_type",
           "wildcard_and_relation", "typedef_nil", "typedef_relations_nil", "type_name_empty", "relation_name_empty", "relation_name_spaces",
           "conditions_nil_value", "condition_key_mismatch", "condition_params_nil", "condition_param_nil", "list_param_without_generic",
           "map_param_without_generic", "param_type_unspecified", "condition_metadata_nil", "source_info_nil", "schema_empty",
           "restriction_unknown_condition", "duplicate_typedef", "ttu_on_missing_tupleset", "module_without_file", "file_without_module",
           "restriction_empty_relation_first", "restriction_nil_wildcard_first", "restriction_nil_first",
           "list_param_empty_generics", "map_param_empty_generics", "generic_type_nil_entry">>
Sites == 0..2
Holes == { <<Kinds[k], s>> : k \in 1..Len(Kinds), s \in Sites }
Init == st = [base |-> 0, holes |-> {}, done |-> FALSE]
Next == /\ ~st.done
        /\ \/ st.base = 0 /\ \E b \in Bases : st' = [st EXCEPT !.base = b]
           \/ st.base # 0 /\ Cardinality(st.holes) < MaxHoles /\ \E h \in Holes : h \notin st.holes /\ st' = [st EXCEPT !.holes = @ \cup {h}]
           \/ st.base # 0 /\ st' = [st EXCEPT !.done = TRUE] /\ PrintT(ToJson([rec |-> "degenerate", base |-> st.base, holes |-> st.holes]))
\* the property, over the recorded outcomes
Outcomes == ndJsonDeserialize("c08_outcomes.ndjson")
OutInit == st \in 1..Len(Outcomes)
OutNext == FALSE /\ st' = st
TotalOnDegenerateModels == \A e \in DOMAIN Outcomes[st].results : Outcomes[st].results[e] \in {"ok", "error"}
=============================================================================
