----------------------------- MODULE PlainGraphMC -----------------------------
(***************************************************************************)
(* Models for PlainGraph: the shape-menu universe of WGraphMC (frame +     *)
(* free relations) re-used, or models handed in from outside.              *)
(***************************************************************************)
EXTENDS PlainGraph
Given == ndJsonDeserialize("pg_models.ndjson")
GivenAt(i) == Given[i]
GivenNum == Len(Given)
=============================================================================
