------------------------------- MODULE ModFile -------------------------------
(***************************************************************************)
(* fga.mod manifests: pkg/go/transformer/mod-to-json.go (property C15).    *)
(*                                                                         *)
(* Three machines share the variable st (selected by INIT/NEXT in the cfg):*)
(*  Aut*      the path check as a finite character automaton (percent      *)
(*            decoder x monitors).  TLC explores ALL its reachable states, *)
(*            i.e. strings of every length: AcceptedPathSafe.              *)
(*  Paths*    every string up to MaxLen over the alphabet, with the        *)
(*            functional reading Verdict(s) (transcribes the code) and the *)
(*            manifest text it is embedded in; printed for replay.         *)
(*  Manifest* manifests built from an entry pool in several YAML           *)
(*            presentation styles, with the position of every value.       *)
(***************************************************************************)
EXTENDS Integers, Sequences, FiniteSets, TLC, Json

CONSTANTS MaxLen,       \* Paths: maximal string length
          MaxEntries    \* Manifest: maximal number of contents entries

VARIABLE st

Alpha == <<".", "/", "\\", "%", "2", "5", "e", "E", "f", "F", "c", "C", "+", "a", "g">>
AlphaSet == { Alpha[i] : i \in 1..Len(Alpha) }
Code == [c \in AlphaSet |->
          CASE c = "." -> 46 [] c = "/" -> 47 [] c = "\\" -> 92 [] c = "%" -> 37 [] c = "2" -> 50 [] c = "5" -> 53
            [] c = "e" -> 101 [] c = "E" -> 69 [] c = "f" -> 102 [] c = "F" -> 70 [] c = "c" -> 99 [] c = "C" -> 67
            [] c = "+" -> 43 [] c = "a" -> 97 [] c = "g" -> 103]
HexVal(c) == CASE c = "2" -> 2 [] c = "5" -> 5 [] c \in {"e", "E"} -> 14 [] c \in {"f", "F"} -> 15 [] c \in {"c", "C"} -> 12
               [] c = "a" -> 10 [] OTHER -> -1

(***************************************************************************)
(* Functional reading of the code (Impl): url.QueryUnescape, backslash     *)
(* normalisation, "../" and leading "/" test, ".fga" suffix.               *)
(***************************************************************************)
RECURSIVE Decode(_, _)
Decode(s, i) ==
  IF i > Len(s) THEN <<>>
  ELSE IF s[i] = "%" THEN
         IF i + 2 > Len(s) \/ HexVal(s[i+1]) < 0 \/ HexVal(s[i+2]) < 0 THEN <<-1>>
         ELSE <<16 * HexVal(s[i+1]) + HexVal(s[i+2])>> \o Decode(s, i + 3)
  ELSE IF s[i] = "+" THEN <<32>> \o Decode(s, i + 1)
  ELSE <<Code[s[i]]>> \o Decode(s, i + 1)
HasErr(b) == \E i \in 1..Len(b) : b[i] = -1
Norm(b) == [i \in 1..Len(b) |-> IF b[i] = 92 THEN 47 ELSE b[i]]
Contains(b, pat) == \E i \in 1..(Len(b) - Len(pat) + 1) : SubSeq(b, i, i + Len(pat) - 1) = pat
HasSuffix(b, pat) == Len(b) >= Len(pat) /\ SubSeq(b, Len(b) - Len(pat) + 1, Len(b)) = pat
DotDotSlash == <<46, 46, 47>>
Fga == <<46, 102, 103, 97>>
Verdict(s) ==
  LET d == Decode(s, 1) IN
  IF HasErr(d) THEN [v |-> "decode", path |-> <<>>]
  ELSE LET n == Norm(d) IN
       IF Contains(n, DotDotSlash) \/ (Len(n) > 0 /\ n[1] = 47) THEN [v |-> "invalid", path |-> <<>>]
       ELSE IF ~HasSuffix(n, Fga) THEN [v |-> "suffix", path |-> <<>>]
       ELSE [v |-> "ok", path |-> n]

(***************************************************************************)
(* Ideal: what C15 demands of a returned path                              *)
(***************************************************************************)
RECURSIVE Segs(_, _, _)
Segs(b, i, cur) == IF i > Len(b) THEN {cur} ELSE IF b[i] = 47 THEN {cur} \cup Segs(b, i + 1, <<>>) ELSE Segs(b, i + 1, Append(cur, b[i]))
Safe(b) == /\ ~(Len(b) > 0 /\ b[1] = 47) /\ ~(\E i \in 1..Len(b) : b[i] = 92) /\ <<46, 46>> \notin Segs(b, 1, <<>>) /\ HasSuffix(b, Fga)
IsPlain(s) == \A i \in 1..Len(s) : s[i] \notin {"%", "+", "\\"}
PlainBytes(s) == [i \in 1..Len(s) |-> Code[s[i]]]

AcceptedPathSafeFn(s) == Verdict(s).v = "ok" => Safe(Verdict(s).path)
VerbatimWhenPlainFn(s) == IsPlain(s) /\ Verdict(s).v = "ok" => Verdict(s).path = PlainBytes(s)
\* (the converse - every safe path is accepted - is NOT demanded by C15 and is false: ".../x.fga" has no ".." segment
\*  but contains "../"; the code refuses it, which is merely conservative)

(***************************************************************************)
(* Aut: the same check as a finite automaton over characters               *)
(***************************************************************************)
AutInitState == [dec |-> "n", nib |-> 0, first |-> TRUE, abs |-> FALSE, dds |-> 0, seg |-> "empty", badseg |-> FALSE,
                 suf |-> 0, err |-> FALSE, bs |-> FALSE]
\* a byte leaves the decoder: normalise, update the monitors of the code (abs, dds, suf) and of the Ideal (seg, badseg, bs)
Emit(a, b0) ==
  LET b == IF b0 = 92 THEN 47 ELSE b0
      dds2 == IF a.dds = 3 THEN 3
              ELSE IF b = 46 THEN (IF a.dds = 0 THEN 1 ELSE 2)           \* "." : 0->1, 1->2, 2->2
              ELSE IF b = 47 /\ a.dds = 2 THEN 3 ELSE 0
      seg2 == IF b = 47 THEN "empty"
              ELSE IF b = 46 THEN (CASE a.seg = "empty" -> "d1" [] a.seg = "d1" -> "d2" [] OTHER -> "o")
              ELSE "o"
      suf2 == IF b = 46 THEN 1
              ELSE IF b = 102 /\ a.suf = 1 THEN 2
              ELSE IF b = 103 /\ a.suf = 2 THEN 3
              ELSE IF b = 97 /\ a.suf = 3 THEN 4 ELSE 0
  IN [a EXCEPT !.first = FALSE, !.abs = IF a.first THEN b = 47 ELSE a.abs, !.dds = dds2, !.seg = seg2,
               !.badseg = a.badseg \/ (b = 47 /\ a.seg = "d2"), !.suf = suf2, !.bs = a.bs \/ b = 92, !.dec = "n"]
Feed(a, c) ==
  IF a.err THEN a
  ELSE CASE a.dec = "n" -> IF c = "%" THEN [a EXCEPT !.dec = "p1"] ELSE IF c = "+" THEN Emit(a, 32) ELSE Emit(a, Code[c])
         [] a.dec = "p1" -> IF HexVal(c) >= 0 THEN [a EXCEPT !.dec = "p2", !.nib = HexVal(c)] ELSE [a EXCEPT !.err = TRUE]
         [] a.dec = "p2" -> IF HexVal(c) >= 0 THEN Emit(a, 16 * a.nib + HexVal(c)) ELSE [a EXCEPT !.err = TRUE]
CodeAccepts(a) == ~a.err /\ a.dec = "n" /\ a.dds # 3 /\ ~a.abs /\ a.suf = 4
IdealSafe(a) == ~a.abs /\ ~a.badseg /\ a.seg # "d2" /\ a.suf = 4 /\ ~a.bs

AutInit == st = AutInitState
AutNext == \E c \in AlphaSet : st' = Feed(st, c)
\* invariant over ALL reachable automaton states = strings of every length
AcceptedPathSafe == CodeAccepts(st) => IdealSafe(st)

RECURSIVE RunAut(_, _, _)
RunAut(a, s, i) == IF i > Len(s) THEN a ELSE RunAut(Feed(a, s[i]), s, i + 1)

(***************************************************************************)
(* Paths: every string up to MaxLen, each also with ".fga" appended        *)
(***************************************************************************)
RECURSIVE JoinChars(_, _)
JoinChars(s, i) == IF i > Len(s) THEN "" ELSE s[i] \o JoinChars(s, i + 1)
RECURSIVE EscDQ(_, _)      \* inside a double-quoted YAML scalar a backslash is written twice
EscDQ(s, i) == IF i > Len(s) THEN "" ELSE (IF s[i] = "\\" THEN "\\\\" ELSE s[i]) \o EscDQ(s, i + 1)
PathPrefix == "schema: '1.2'\ncontents:\n  - \""
PathSuffix == "\"\n"
FgaChars == <<".", "f", "g", "a">>
PathRec(s) == LET v == Verdict(s) IN
  [rec |-> "path", s |-> JoinChars(s, 1), text |-> PathPrefix \o EscDQ(s, 1) \o PathSuffix, v |-> v.v, path |-> v.path,
   safe |-> IF v.v = "ok" THEN Safe(v.path) ELSE TRUE, line |-> 2, col |-> 4]

PathsInit == st = <<>>
PathsNext == /\ Len(st) < MaxLen
             /\ \E c \in AlphaSet : st' = Append(st, c)
             /\ PrintT(ToJson(PathRec(st')))
             /\ PrintT(ToJson(PathRec(st' \o FgaChars)))
PathInvs(s) == /\ AcceptedPathSafeFn(s) /\ VerbatimWhenPlainFn(s)
               /\ (CodeAccepts(RunAut(AutInitState, s, 1)) <=> Verdict(s).v = "ok")       \* automaton = functional reading
PathsOK == PathInvs(st) /\ PathInvs(st \o FgaChars)

\* Given: strings handed in from outside (seeded random longer strings), one initial state each
GivenStrings == ndJsonDeserialize("modfile_given.ndjson")
CharsOf(str) == [i \in 1..Len(str) |-> SubSeq(str, i, i)]
GivenInit == /\ st \in 1..Len(GivenStrings)
             /\ PrintT(ToJson(PathRec(CharsOf(GivenStrings[st].s))))
GivenNext == FALSE /\ st' = st
GivenOK == PathInvs(CharsOf(GivenStrings[st].s))

(***************************************************************************)
(* Manifest: presentation styles and positions                             *)
(***************************************************************************)
\* entry pool: [src (text of the scalar as written), kind, value (returned path when accepted)]
Pool == <<
  [src |-> "core.fga",            kind |-> "ok",      value |-> "core.fga"],
  [src |-> "'dir/b.fga'",         kind |-> "ok",      value |-> "dir/b.fga"],
  [src |-> "\"dir\\\\c.fga\"",    kind |-> "ok",      value |-> "dir/c.fga"],
  [src |-> "a%2Fb%2ffga.fga",     kind |-> "ok",      value |-> "a/b/fga.fga"],
  [src |-> "42",                  kind |-> "nonstr",  value |-> ""],
  [src |-> "true",                kind |-> "nonstr",  value |-> ""],
  [src |-> "\"%zz.fga\"",         kind |-> "decode",  value |-> ""],
  [src |-> "../x.fga",            kind |-> "invalid", value |-> ""],
  [src |-> "'..%5Cx.fga'",        kind |-> "invalid", value |-> ""],
  [src |-> "/abs.fga",            kind |-> "invalid", value |-> ""],
  [src |-> "\"\\\\abs.fga\"",     kind |-> "invalid", value |-> ""],
  [src |-> "x.txt",               kind |-> "suffix",  value |-> ""],
  [src |-> "a b+c.fga",           kind |-> "ok",      value |-> "a b c.fga"],
  \* entries that are empty: the empty string has no .fga extension, a null is no string - "one error per offending entry, never silently filtered"
  [src |-> "''",                  kind |-> "suffix",  value |-> ""],
  [src |-> "\"\"",                kind |-> "suffix",  value |-> ""],
  [src |-> "~",                   kind |-> "nonstr",  value |-> ""],
  [src |-> "null",                kind |-> "nonstr",  value |-> ""] >>

Styles == [ lead : {"", "# manifest\n", "\n\n# c\n"}, keyfirst : {"schema", "contents"}, squote : {"'1.2'", "\"1.2\"", "'1.1'"},        \* (the last: a version the reader does not support - one more error, no fewer)
            seq : {"block0", "block2", "block4", "flow"}, between : {"", "# note"} ]

RECURSIVE Rep(_, _)
Rep(s, n) == IF n = 0 THEN "" ELSE s \o Rep(s, n - 1)
RECURSIVE CountNL(_, _)
CountNL(s, i) == IF i > Len(s) THEN 0 ELSE (IF SubSeq(s, i, i) = "\n" THEN 1 ELSE 0) + CountNL(s, i + 1)
Indent(sty) == CASE sty.seq = "block0" -> 0 [] sty.seq = "block2" -> 2 [] sty.seq = "block4" -> 4 [] OTHER -> 0

\* Renders the manifest; returns [text, schema: <<line, col>>, contents: <<line, col>>, items: << <<line, col>> >>]
RECURSIVE BlockItems(_, _, _, _, _)
BlockItems(es, i, sty, line, acc) ==
  IF i > Len(es) THEN acc
  ELSE LET cm == IF sty.between # "" /\ i > 1 THEN Rep(" ", Indent(sty)) \o sty.between \o "\n" ELSE ""
           ln == line + (IF cm = "" THEN 0 ELSE 1)
           row == Rep(" ", Indent(sty)) \o "- " \o es[i].src \o "\n"
       IN BlockItems(es, i + 1, sty, ln + 1, [text |-> acc.text \o cm \o row, pos |-> Append(acc.pos, <<ln, Indent(sty) + 2>>)])
RECURSIVE FlowItems(_, _, _, _)
FlowItems(es, i, col, acc) ==
  IF i > Len(es) THEN acc
  ELSE LET sep == IF i > 1 THEN ", " ELSE "" IN
       FlowItems(es, i + 1, col + Len(sep) + Len(es[i].src), [text |-> acc.text \o sep \o es[i].src, pos |-> Append(acc.pos, col + Len(sep))])

Render(es, sty) ==
  LET l0 == CountNL(sty.lead, 1)
      schemaLine(l) == [text |-> "schema: " \o sty.squote \o "\n", pos |-> <<l, 8>>, next |-> l + 1]
      contents(l) ==
        IF sty.seq = "flow"
        THEN LET f == FlowItems(es, 1, 11, [text |-> "", pos |-> <<>>]) IN
             [text |-> "contents: [" \o f.text \o "]\n", pos |-> <<l, 10>>, items |-> [k \in 1..Len(es) |-> <<l, f.pos[k]>>], next |-> l + 1]
        ELSE LET b == BlockItems(es, 1, sty, l + 1, [text |-> "", pos |-> <<>>]) IN
             [text |-> "contents:\n" \o b.text, pos |-> <<l + 1, Indent(sty)>>, items |-> b.pos, next |-> l + 1 + Len(es) + CountNL(b.text, 1) - Len(es)]
  IN IF sty.keyfirst = "schema"
     THEN LET s == schemaLine(l0) c == contents(s.next) IN [text |-> sty.lead \o s.text \o c.text, schema |-> s.pos, contents |-> c.pos, items |-> c.items]
     ELSE LET c == contents(l0) s == schemaLine(c.next) IN [text |-> sty.lead \o c.text \o s.text, schema |-> s.pos, contents |-> c.pos, items |-> c.items]

ManifestRec(es, sty) ==
  LET r == Render(es, sty)
      bad == { i \in 1..Len(es) : es[i].kind # "ok" }
      good == SelectSeq([i \in 1..Len(es) |-> i], LAMBDA i : es[i].kind = "ok")
      badschema == sty.squote = "'1.1'"
  IN [rec |-> "manifest", text |-> r.text, ok |-> bad = {} /\ ~badschema,
      schema |-> [value |-> "1.2", line |-> r.schema[1], col |-> r.schema[2]],
      contents |-> [line |-> r.contents[1], col |-> r.contents[2]],
      items |-> [k \in 1..Len(good) |-> [value |-> es[good[k]].value, line |-> r.items[good[k]][1], col |-> r.items[good[k]][2]]],
      errors |-> { <<r.items[i][1], r.items[i][2], es[i].kind>> : i \in bad } \cup (IF badschema THEN { <<r.schema[1], r.schema[2], "schema">> } ELSE {})]

ManifestInit == st = [es |-> <<>>, sty |-> CHOOSE s \in Styles : TRUE, done |-> FALSE]
ManifestNext == /\ ~st.done
                /\ \/ /\ Len(st.es) < MaxEntries
                      /\ \E i \in 1..Len(Pool) : st' = [st EXCEPT !.es = Append(@, Pool[i])]
                   \/ /\ Len(st.es) >= 1
                      /\ \E sty \in Styles : st' = [st EXCEPT !.sty = sty, !.done = TRUE] /\ PrintT(ToJson(ManifestRec(st.es, sty)))
\* Manifests in which a node carries an explicit tag contradicting its kind (a scalar or a mapping tagged !!seq, a collection
\* tagged !!str): no list of path strings, whatever the tag says - "rejected ..., never silently filtered"
OddManifests == <<
  "schema: '1.2'\ncontents: !!seq ../evil.txt\n",
  "schema: '1.2'\ncontents: !!seq {a.fga: ../b.fga}\n",
  "schema: '1.2'\ncontents: !!seq {a.fga: b.fga}\n",
  "schema: '1.2'\ncontents:\n  - !!str [a.fga]\n",
  "schema: '1.2'\ncontents:\n  - !!str {a.fga: b.fga}\n",
  "schema: !!str ['1.2']\ncontents:\n  - a.fga\n",
  "contents: !!seq x.txt\nschema: \"1.2\"\n" >>
\* schema values a YAML reader resolves to the number 1.2 but which are not the text '1.2': if such a manifest is accepted at all,
\* "the schema is '1.2'" must still hold of what is returned
OddSchemas == << "1.2", "1.20", "1.200", "1.2e0", "+1.2", "12e-1", "01.2", "0.12e1", "1.2E+0", "'1.20'", "\"1.2 \"", "!!str 1.2", "!!float '1.2'", "1_2e-1", ".12e1" >>
OddSchemaInit == st \in 1..Len(OddSchemas)
OddSchemaNext == st > 0 /\ st' = 0 - st /\ PrintT(ToJson([rec |-> "oddschema", text |-> "schema: " \o OddSchemas[st] \o "\ncontents:\n  - core.fga\n", ok |-> FALSE]))
OddSchemaOK == TRUE
\* Presentation styles beyond plain / quoted scalars: anchors and aliases, block scalars (literal, folded, with and without the final
\* line break), tagged scalars, a complex key. What is claimed: accepted or not, the returned values in manifest order, one error per
\* offending entry (positions of decorated and block scalars are not claimed: DESIGN II.6b)
Styled == <<
  [text |-> "schema: '1.2'\ncontents:\n  - &a core.fga\n  - b.fga\n",                       ok |-> TRUE,  values |-> <<"core.fga", "b.fga">>, nerr |-> 0],
  [text |-> "schema: '1.2'\ncontents:\n  - &a core.fga\n  - *a\n",                          ok |-> FALSE, values |-> <<>>, nerr |-> 1],        \* an alias is no string node
  [text |-> "schema: '1.2'\ncontents:\n  - |-\n    d.fga\n  - >-\n    dir/e.fga\n",          ok |-> TRUE,  values |-> <<"d.fga", "dir/e.fga">>, nerr |-> 0],
  [text |-> "schema: '1.2'\ncontents:\n  - |\n    d.fga\n  - e.fga\n",                      ok |-> FALSE, values |-> <<>>, nerr |-> 1],        \* kept final line break: no .fga suffix
  [text |-> "schema: &v '1.2'\ncontents:\n  - !!str b.fga\n  - c.fga\n",                     ok |-> TRUE,  values |-> <<"b.fga", "c.fga">>, nerr |-> 0],
  [text |-> "schema: '1.2'\ncontents: &c\n  - a.fga\n",                                      ok |-> TRUE,  values |-> <<"a.fga">>, nerr |-> 0],
  [text |-> "schema: '1.2'\ncontents:\n  - &x ../evil.fga\n  - *x\n  - ok.fga\n",            ok |-> FALSE, values |-> <<>>, nerr |-> 2],
  [text |-> "schema: '1.2'\ncontents:\n  - |-\n    ../x.fga\n",                              ok |-> FALSE, values |-> <<>>, nerr |-> 1],
  [text |-> "schema: '1.2'\ncontents:\n  - >-\n    dir/\n    e.fga\n",                       ok |-> TRUE,  values |-> <<"dir/ e.fga">>, nerr |-> 0],      \* folded: the line break reads as a blank
  [text |-> "schema: '1.2'\ncontents:\n  - ? a.fga\n",                                       ok |-> FALSE, values |-> <<>>, nerr |-> 1],
  [text |-> "schema: |-\n  1.2\ncontents:\n  - a.fga\n",                                     ok |-> TRUE,  values |-> <<"a.fga">>, nerr |-> 0],
  [text |-> "contents:\n- &p \"dir%2Fb.fga\"\n- 'q.fga'\nschema: \"1.2\"\n",                 ok |-> TRUE,  values |-> <<"dir/b.fga", "q.fga">>, nerr |-> 0],
  \* aliases of whole lists - a list that contains itself included (a YAML reader hands such a node over as it is): an alias is
  \* no list and no string, nothing is expanded, and the call returns
  [text |-> "schema: '1.2'\ncontents: &all [*all]\n",                                       ok |-> FALSE, values |-> <<>>, nerr |-> 1],
  [text |-> "schema: '1.2'\ncontents: &all\n  - core.fga\n  - *all\n",                       ok |-> FALSE, values |-> <<>>, nerr |-> 1],
  [text |-> "base: &b\n  - a.fga\nschema: '1.2'\ncontents: *b\n",                            ok |-> FALSE, values |-> <<>>, nerr |-> 1],
  [text |-> "schema: '1.2'\ncontents:\n  - &l [a.fga]\n  - *l\n",                            ok |-> FALSE, values |-> <<>>, nerr |-> 2],
  [text |-> "schema: &s '1.2'\ncontents:\n  - *s\n",                                         ok |-> FALSE, values |-> <<>>, nerr |-> 1],
  [text |-> "schema: '1.2'\ncontents: &c\n  - a.fga\nextra: *c\n",                           ok |-> TRUE,  values |-> <<"a.fga">>, nerr |-> 0] >>
\* Texts that are not YAML: the syntax error stands inside the manifest or after it (behind the end of a flow mapping, behind a
\* document end marker, in a second document). C08: a syntax error in the input is always reported through the returned error.
Broken == <<
  "{schema: '1.2', contents: [a.fga]} trailing",
  "{schema: '1.2', contents: [a.fga]}\n]",
  "schema: '1.2'\ncontents:\n  - a.fga\n---\n{ unclosed",
  "schema: '1.2'\ncontents:\n  - a.fga\n---\n- [a",
  "schema: '1.2'\ncontents:\n  - a.fga\n...\n}}}",
  "schema: '1.2'\ncontents:\n  - a.fga\n  - [b.fga\n",
  "schema: '1.2'\ncontents:\n  - a.fga\n\t- b.fga\n",
  "schema: '1.2'\ncontents: [a.fga\n",
  "schema: '1.2\ncontents:\n  - a.fga\n",
  "schema: '1.2'\ncontents:\n  - a.fga\n---\nschema: \"1.2\ncontents: []\n",
  \* ... in the third document, in the fifth
  "schema: '1.2'\ncontents:\n  - core.fga\n---\nnotes: fine\n---\nnotes: [unterminated\n",
  "schema: '1.2'\ncontents:\n  - core.fga\n---\n- a\n---\n- b\n---\nc: d\n---\n{ e: [f }\n" >>
BrokenInit == st \in 1..Len(Broken)
BrokenNext == st > 0 /\ st' = 0 - st /\ PrintT(ToJson([rec |-> "broken", text |-> Broken[st], ok |-> FALSE]))
BrokenOK == TRUE
StyledInit == st \in 1..Len(Styled)
StyledNext == st > 0 /\ st' = 0 - st /\ PrintT(ToJson([rec |-> "styled"] @@ Styled[st]))
StyledOK == TRUE
OddInit == st \in 1..Len(OddManifests)
OddNext == st > 0 /\ st' = 0 - st /\ PrintT(ToJson([rec |-> "odd", text |-> OddManifests[st], ok |-> FALSE]))
OddOK == TRUE
\* OneErrorPerOffender at the design level: the expected error set has one element per offending entry (positions are distinct)
OneErrorPerOffender == st.done => LET r == ManifestRec(st.es, st.sty) IN
                          Cardinality(r.errors) = Cardinality({ i \in 1..Len(st.es) : st.es[i].kind # "ok" }) + (IF st.sty.squote = "'1.1'" THEN 1 ELSE 0)
=============================================================================
