------------------------------- MODULE Artefacts -------------------------------
(***************************************************************************)
(* C19: the lexer / parser automata embedded in the Go, JS and Java        *)
(* packages are replicas of one state, generated from the two .g4 files.   *)
(* The harness logs, without running anything, from each package the       *)
(* serialized ATN (Go int32 literals, TS number literals, Java 16-bit word *)
(* string decoded), rule / literal / symbolic names, the .interp and       *)
(* .tokens files; from the grammars the declared rules (fragments          *)
(* included), literals, modes and per parser rule the referenced tokens    *)
(* and rules; from the Go ATN (read directly in its serialized form) the   *)
(* same references; from the Go transformer the listener callbacks.        *)
(* TLC is the comparator of the recorded configuration state.              *)
(***************************************************************************)
EXTENDS Integers, Sequences, FiniteSets, TLC, Json
LR == INSTANCE LexerRules
VARIABLE st
Logged == ndJsonDeserialize("artefacts.ndjson")
Recs(kind) == { i \in 1..Len(Logged) : Logged[i].kind = kind }
Init == st = 0
Next == FALSE /\ st' = st

Replicas(a) == { i \in Recs("replica") : Logged[i].artefact = a }
AllEqual(S, f(_)) == \A i, j \in S : f(i) = f(j)
FAtn(i) == Logged[i].atn
FRules(i) == Logged[i].rules
FLit(i) == Logged[i].literal
FSym(i) == Logged[i].symbolic
FLines(i) == Logged[i].lines
Langs == {"go", "js", "java", "go.interp", "js.interp", "java.interp"}
\* the replicas agree pairwise (automaton, rule names, vocabularies, .tokens files) and none is missing
ArtefactsAgree ==
  \A a \in {"lexer", "parser"} :
    /\ { Logged[i].lang : i \in Replicas(a) } = Langs
    /\ AllEqual(Replicas(a), FAtn) /\ AllEqual(Replicas(a), FRules) /\ AllEqual(Replicas(a), FLit) /\ AllEqual(Replicas(a), FSym)
    /\ AllEqual({ i \in Recs("tokens") : Logged[i].artefact = a }, FLines)
    /\ Cardinality({ i \in Recs("tokens") : Logged[i].artefact = a }) = 3
Grammar(a) == Logged[CHOOSE i \in Recs("grammar") : Logged[i].artefact = a]
AnyReplica(a) == Logged[CHOOSE i \in Replicas(a) : Logged[i].lang = "go"]
\* rule names = the rules the grammar declares, in order; every literal lexer rule has its literal in the vocabulary
VocabularyMatchesGrammar ==
  /\ \A a \in {"lexer", "parser"} : AnyReplica(a).rules = Grammar(a).rules
  /\ LET V == AnyReplica("lexer") G == Grammar("lexer") IN
     \A t \in DOMAIN G.literals :
        \E k \in 1..Len(V.symbolic) : V.symbolic[k] = t /\ k <= Len(V.literal) /\ V.literal[k] = G.literals[t]
  /\ AnyReplica("parser").symbolic = AnyReplica("lexer").symbolic
\* the integer constants every generated class exports (token types, rule indices, lexer modes) are the numbering of the vocabulary:
\* symbolic name k stands at position k + 1, rule j at position j + 1, mode m at position m + 1 of the grammar's mode list
Consts(l, a) == LET r == Logged[CHOOSE i \in Recs("constants") : Logged[i].lang = l /\ Logged[i].artefact = a]
                IN { <<r.pairs[k][1], r.pairs[k][2]>> : k \in 1..Len(r.pairs) }
TokenConsts(a) == LET S == AnyReplica(a).symbolic IN { <<S[k], k - 1>> : k \in { j \in 1..Len(S) : S[j] # "" } }
RuleConsts == LET R == AnyReplica("parser").rules IN { <<"RULE_" \o R[j], j - 1>> : j \in 1..Len(R) }
ModeConsts == LET M == Grammar("lexer").modes IN { <<M[j], j - 1>> : j \in 2..Len(M) }
ConstantsNumberTheVocabulary ==
  /\ { <<Logged[i].lang, Logged[i].artefact>> : i \in Recs("constants") } = {"go", "js", "java"} \X {"lexer", "parser"}
  /\ \A l \in {"go", "js", "java"} : /\ Consts(l, "lexer") = TokenConsts("lexer") \cup ModeConsts
                                      /\ Consts(l, "parser") = TokenConsts("parser") \cup RuleConsts
\* every rule of OpenFGALexer.g4 reads as spec/Lexer.tla transcribes it (LexerRules.tla), and the rules stand in that order: the lexer
\* whose behaviour the token traces validate is the lexer this grammar describes
LexerRulesLogged == Logged[CHOOSE i \in Recs("lexerrules") : TRUE].list
LexerGrammarAsTranscribed ==
  /\ Len(LexerRulesLogged) = Len(LR!RuleList)
  /\ \A j \in 1..Len(LR!RuleList) : j <= Len(LexerRulesLogged) => LexerRulesLogged[j][1] = LR!RuleList[j][1] /\ LexerRulesLogged[j][2] = LR!RuleList[j][2]
\* per parser rule, the tokens and rules its ATN sub-automaton refers to are those its grammar body names
AtnRefs == Logged[CHOOSE i \in Recs("atnrefs") : TRUE].refs
RuleBodiesMatchATN ==
  LET G == Grammar("parser").refs IN
  /\ DOMAIN AtnRefs = DOMAIN G
  /\ \A r \in DOMAIN G : AtnRefs[r] = G[r]
\* the Go listener implements a callback only for rules that exist
Upper == "ABCDEFGHIJKLMNOPQRSTUVWXYZ"
LowerS == "abcdefghijklmnopqrstuvwxyz"
LowerFirst(s) == IF \E k \in 1..26 : SubSeq(Upper, k, k) = SubSeq(s, 1, 1)
                 THEN SubSeq(LowerS, CHOOSE k \in 1..26 : SubSeq(Upper, k, k) = SubSeq(s, 1, 1), CHOOSE k \in 1..26 : SubSeq(Upper, k, k) = SubSeq(s, 1, 1)) \o SubSeq(s, 2, Len(s))
                 ELSE s
RuleOfCallback(n) == LowerFirst(IF SubSeq(n, 1, 5) = "Enter" THEN SubSeq(n, 6, Len(n)) ELSE SubSeq(n, 5, Len(n)))
Callbacks == Logged[CHOOSE i \in Recs("callbacks") : TRUE].names
ListenerCallbacksExist == \A k \in 1..Len(Callbacks) : \E j \in 1..Len(AnyReplica("parser").rules) : AnyReplica("parser").rules[j] = RuleOfCallback(Callbacks[k])

(***************************************************************************)
(* The generated recursive-descent code itself (hand edits leave the ATN   *)
(* untouched).  The driver reads each package's parser as text and logs,   *)
(* per rule method, the sequence of parser actions (state numbers, matched *)
(* tokens, alternatives, prediction decisions, calls of other rules -     *)
(* not token-set masks, which the JS target splits); per context class the rule index it carries; the listener *)
(* methods the contexts dispatch to and the listener files declare.  The   *)
(* three packages come from one generator run over one grammar: the action *)
(* sequences are the same sequence, written in three languages.            *)
(***************************************************************************)
Skel(l) == Logged[CHOOSE i \in Recs("skeleton") : Logged[i].lang = l]
ParserRules == AnyReplica("parser").rules
RuleSet == { ParserRules[j] : j \in 1..Len(ParserRules) }
ParserSkeletonsAgree ==
  /\ { Logged[i].lang : i \in Recs("skeleton") } = {"go", "js", "java"}
  /\ \A l \in {"go", "js", "java"} : DOMAIN Skel(l).rules = RuleSet
  /\ \A r \in RuleSet : Skel("go").rules[r] = Skel("js").rules[r] /\ Skel("go").rules[r] = Skel("java").rules[r]
\* every context class carries the index of the rule it is named after, and every rule has its class
ContextsCarryTheirRule ==
  \A l \in {"go", "js", "java"} :
    LET P == Skel(l).ctxrule IN
    /\ \A k \in 1..Len(P) : LowerFirst(P[k][1]) = P[k][2]
    /\ { P[k][2] : k \in 1..Len(P) } = RuleSet
\* the listener methods - dispatched to by the contexts, declared by the listener files - are Enter / Exit of exactly the rules
UpperFirst(s) == IF \E k \in 1..26 : SubSeq(LowerS, k, k) = SubSeq(s, 1, 1)
                 THEN SubSeq(Upper, CHOOSE k \in 1..26 : SubSeq(LowerS, k, k) = SubSeq(s, 1, 1), CHOOSE k \in 1..26 : SubSeq(LowerS, k, k) = SubSeq(s, 1, 1)) \o SubSeq(s, 2, Len(s))
                 ELSE s
Methods(l) == { p \o UpperFirst(r) : r \in RuleSet, p \in (IF l = "go" THEN {"Enter", "Exit"} ELSE {"enter", "exit"}) }
SeqSet(q) == { q[k] : k \in 1..Len(q) }
GeneratedListenersMatchRules ==
  \A l \in {"go", "js", "java"} :
    /\ SeqSet(Skel(l).dispatch) = Methods(l)
    /\ \A f \in 1..Len(Skel(l).listeners) : SeqSet(Skel(l).listeners[f]) = Methods(l)
=============================================================================
