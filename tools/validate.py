#!/usr/bin/env python3-vt
import json, sys, glob
from jsonschema import validate
validate(json.load(open('/verif/MANIFEST.json')), json.load(open('/root/.vp/MANIFEST.schema.json')))
n=0
for f in glob.glob('/verif/evidence/*.json'):
    validate(json.load(open(f)), json.load(open('/root/.vp/EVIDENCE.schema.json'))); n+=1
print('manifest valid; %d evidence files valid' % n)
