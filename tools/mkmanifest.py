#!/usr/bin/env python3
"""Regenerates /verif/MANIFEST.json from the table below (single source of truth for the interface file)."""
import json
import os
import subprocess

V = os.path.dirname(os.path.dirname(os.path.abspath(__file__)))
ALL = ["C%02d" % i for i in range(1, 20)]

WG_NOTE = ("Trusted: TLC, the Ideal layer of spec/WGraph.tla as a reading of the statement, the harness' abstract-model->protobuf conversion and "
           "positional renaming of operator nodes. Bounded: universe of 225 (quick) / 400+1728 (thorough) models x all DFS root orders on the Impl "
           "layer; real code: all root orders forced for graphs with <= 6 non-terminal nodes, else sampled; random larger models validated as traces: "
           "the logged DFS roots resolve the schedule and every logged step of the weight assignment (hook VerifOnWeightStep: edge / node / root "
           "returned - cycle set, error class, weights with placeholders, wildcards, whole state at a root) must be what the Impl layer holds at that point.")

CHECKS = {
    "C04": dict(level="model_checking", design="4/C04, 3.3", technique="TLC model checking of a PlusCal transcription of AssignWeights against a declarative Ideal layer; replay of every TLC outcome into the real builder with forced DFS root orders; trace validation of logged root orders and of every logged step of the weight assignment",
                text="TLC explores every model of a bounded universe under every DFS root order on the Impl layer (PlusCal transcription of AssignWeights) and checks WeightsAreTrueMaxHops, EdgeWeightIsTargetPlusHop, NoPlaceholderVisible, NoEmptyWeights against the declarative Ideal layer; every predicted outcome is replayed on the real builder with the root order forced through the verif hook, and logged natural orders of random larger models are validated by TLC. Real node/edge weights are compared with the Ideal weights.",
                note=WG_NOTE),
    "C05": dict(level="model_checking", design="4/C05, 3.3", technique="TLC model checking (all models of a universe x all DFS root orders) + forced-order replay on the real builder + trace validation",
                text="AcceptIffWellFounded and RewriteCycleNeverAccepted are TLC invariants over all models x all root orders of the Impl layer; the real builder is run under all (<= 720) or sampled forced root orders plus natural orders and its verdict compared with WellFounded(M) of the Ideal layer; the error must wrap one of the three sentinels.",
                note=WG_NOTE),
    "C06": dict(level="model_checking", design="4/C06, 3.3", technique="TLC enumeration of schedules on the Impl layer (outcome set per model must be a singleton) + real builds under forced/natural root orders, type and operand permutations, concurrent builds",
                text="TLC shows that for every model of the universe all root orders of the Impl layer end in one outcome; on the real code every model is built under all/sampled forced root orders, 20-50 natural orders, all permutations of the type definitions, reversed/rotated commutative operands and 8 concurrent goroutines: verdict, weights and wildcards must be identical (relation nodes for operand permutations).",
                note=WG_NOTE),
    "C10": dict(level="model_checking", design="4/C10, 3.3", technique="Graph(M) operator of the specification evaluated by TLC for every model and compared with the structure the real builder creates (verif hook before weights)",
                text="Graph(M) in spec/WGraph.tla is the one-to-one image the property describes (nodes, ordered edges with kind, tupleset label, ordered condition list, construction errors); TLC evaluates it for every universe model and every recorded random model, and the structure the real builder produced (observed through the verif hook before weight assignment, so also for rejected models) must be identical; proto.Equal + slice identity around Build. Underneath, spec/WGraphApi.tla is the construction API (AddNode, GetOrAddNode, AddEdge, UpsertEdge, HasEdge) as a state machine: TLC -simulate generates behaviours, each is stepped through the real graph object and return value / projected state are compared after every call (drift of that layer is reported, not a verdict). Independently of Graph(M) the number of TTU edges is compared with one-per-parent-type-per-occurrence counted from the model (finding D23).",
                note=WG_NOTE),
    "C11": dict(level="model_checking", design="4/C11, 3.3", technique="TLC invariant WildcardsAreReachablePublicTypes on the Impl layer over all root orders + comparison of real wildcard lists with plain reachability of the Ideal layer",
                text="WildcardsAreReachablePublicTypes is a TLC invariant in every accepting terminal state of every schedule; real GetWildcards() of every node and edge is compared as a set with the Ideal reachability and checked for duplicates, under forced and natural root orders, on universe and random models with up to five public types.",
                note=WG_NOTE),
}

CHECKS["C15"] = dict(level="model_checking", design="4/C15, 3.5", technique="finite character automaton of the path check model-checked by TLC for strings of every length; exhaustive replay of all strings <= 4/5 over the path alphabet and of manifests in all YAML styles of the presentation model into TransformModFile",
    text="spec/ModFile.tla states the percent-decoder x monitors as a finite automaton; TLC visits all its reachable states, i.e. input strings of every length, and AcceptedPathSafe holds; PathsOK ties the automaton to the functional transcription of the code on all strings <= 4 (quick) / 5 (thorough) over the 15-character alphabet. Every such string (also with .fga appended), 17k-228k manifests from an entry pool x 96 YAML styles, and seeded random longer strings are run through the real TransformModFile: verdict, returned bytes, zero-based line/column of schema, contents and every item, and one error per offending entry at its position must equal what TLC computed; safety is re-evaluated on every accepted real value. OddManifests (a node whose explicit tag contradicts its kind: never a list of path strings) must be rejected; OddSchemas (YAML numbers equal to 1.2, other spellings of the text) may only be accepted with schema '1.2'.",
    note="Trusted: TLC; the YAML presentation model (positions claimed only for untagged plain/quoted scalars in block or flow sequences; the position of a quoted scalar is its opening quote). Bounded: strings <= 4/5 exhaustively, longer ones sampled; anchors, aliases, block and tagged scalars come from a fixed list (Styled) and are checked without positions.")
CHECKS["C18"] = dict(level="model_checking", design="4/C18, 3.6", technique="rule strings transcribed as regex items with a matcher in TLA+; TLC checks the decomposition/limit invariants on all class strings and boundary lengths; verdicts replayed against the nine real validators; rule strings of Go/TS/Java validated as a configuration trace",
    text="spec/Rules.tla carries the five rule strings as regular-expression items and composes them per validator like the code; TLC checks UniqueDecomposition, UserExactlyOneKind, NoSeparatorInParts, LimitsExact on every string over the character-class alphabet up to the stated lengths and on ~100 boundary-length strings (254/255, 50/51, 256/257, multi-byte). Every string, instantiated with several representatives per class, is passed to the nine real validators: verdict vectors must equal TLC's and the decomposition clauses are re-evaluated on the real part validators. The rule strings and composition patterns extracted from the Go, TypeScript and Java sources are validated by TLC against the specification (RuleStringsAgree, PatternsAgree).",
    note="Trusted: TLC, the class alphabet (one symbol per class of characters the rules distinguish: RE2 \\s = blank \\t \\n \\f \\r; \\v and Unicode spaces are not generated). JS/Java: static comparison of rule strings and composition patterns only - neither runtime is installed.")

MG_NOTE = ("Trusted: TLC, the Ideal layer of spec/Merge.tla (ConflictFree, Conflicts, MergedModel) as a reading of the statement, the canonical rendering of abstract files. "
           "Bounded: all sequences of <= 3 (quick) / 4 (thorough) files from a pool of 18 abstract files + seeded random sets of 2-6 files. Syntax errors of one file are not 'conflicts' and need not name the file.")
CHECKS["C07"] = dict(level="model_checking", design="4/C07, 3.4", technique="TLC model checking of a state-machine transcription of TransformModuleFilesToModel against a declarative Ideal layer over all file sets of a pool universe; every set replayed into the real merger",
    text="spec/Merge.tla transcribes the two loops of the merger (map ranges explicit) and states ConflictFree / MergedModel / Conflicts declaratively; TLC checks NeverPanics, MergeSucceedsIffConflictFree, MergedIsAttributedUnion, ErrorNamesOffendingFile on every sequence of <= 3/4 pool files and on random larger sets. Each set is rendered by the specification and merged by the real code: verdict iff conflict-free, exact attributed union (type order, every relation with module/file and a per-file body marker, conditions, GetModuleForObjectTypeRelation, requested schema), error without model naming an offending file, never a panic.",
    note=MG_NOTE)
CHECKS["C12"] = dict(level="model_checking", design="4/C12, 3.4", technique="the Impl state machine of spec/Merge.tla has its map ranges as explicit choices (deterministic after the D6 fix: TLC finds one outcome per file set); the real merger is invoked 8-200 times per set and under every permutation of the file list",
    text="TLC explores the Impl layer of the merger for every file set (one outcome per set: the ranges are ordered); the real merger is invoked repeatedly on every set of the universe and on random sets (30-200 times when several files carry extensions or conditions) and must return the identical model or the identical error list (messages, files, positions, order); all permutations of the file list must agree on success and, on success, on everything but the order of type definitions.",
    note=MG_NOTE + " Go map iteration cannot be forced; it is sampled by repetition.")

DSL_NOTE = ("Trusted: TLC; spec/DslLayout.tla as a transcription of OpenFGAParser.g4 (separator kinds per rule) restricted to what lexer modes and the comment pre-pass admit (DESIGN 3.2); "
            "the indexed document family. Bounded: a few thousand (quick) / tens of thousands (thorough) documents: every single style dimension and single local override on a block of documents, seeded random mixtures beyond.")
CHECKS["C01"] = dict(level="model_checking", design="4/C01, 3.2", technique="documents rendered by TLC from the grammar-level layout specification; round-trip chain executed on the real transformers (same in-memory value, and JSON string API)",
    text="TLC renders every document of the C03 schedule from spec/DslLayout.tla; for every document accepted as a full model the harness computes parse -> render the SAME in-memory model -> parse -> render -> parse -> render and the JSON-string chain: rendering must succeed, the re-parsed model must equal the first (expressions modulo outer whitespace), both APIs must print the same text, and from the second rendering on model and text must be exactly stable.",
    note=DSL_NOTE + " Oracle: metamorphic on the real code; the byte-exact printer of spec/Dsl.tla is checked separately (C02/C14).")
CHECKS["C02"] = dict(level="model_checking", design="4/C02, 3.2", technique="TLC enumerates all rewrite trees to depth 2 and checks ExpressibleIffPrintable on a transcription of the printer; every tree replayed through both JSON->DSL APIs and re-parsed",
    text="spec/Dsl.tla transcribes the printer (PrintM, DirectAssignmentValidator) and states Expressible(t) and Norm(t) declaratively; TLC checks PrinterAccepts <=> Expressible and IsRelationAssignable <=> '[' printed on every tree (4,017 quick / 24,483 thorough: direct assignment anywhere, any multiplicity, single-child operators). Every tree, wrapped in a model with wildcards / usersets / conditions, goes through TransformJSONProtoToDSL and TransformJSONStringToDSL: success iff Expressible, otherwise the unsupported-nesting error, and the re-parsed output must equal NormM(M) as computed by TLC. Three models with a condition parameter of type `any` are part of the universe: the printer writes a word the grammar lacks (finding D20, recorded).",
    note="Trusted: TLC, Expressible/Norm as a reading of the statement. Domain: operators have >= 1 child and exclusions both operands (degenerate models belong to C08). Depth <= 2.")
CHECKS["C03"] = dict(level="model_checking", design="4/C03, 3.2", technique="grammar-level layout specification in TLA+ (token stream with separator kinds, global styles, local overrides) rendered by TLC; every document parsed by the real parser and compared with the model written",
    text="spec/DslLayout.tla turns a document into the token sequence the grammar prescribes with the KIND of separator allowed after every lexeme, and renders it under a style (indentation, tabs, CRLF, blank lines, full-line and trailing comments incl. ones containing ' #', multi-line restriction lists, spaces around brackets/commas/colons, leading/trailing lines) plus up to two local overrides; documents cover keywords as names, dotted/slashed/dashed identifiers, redundant and doubled parentheses, all parameter types, multi-line condition bodies, module files. The real parser must accept every rendering and return exactly the model written.",
    note=DSL_NOTE)
CHECKS["C09"] = dict(level="model_checking", design="4/C09, 3.2", technique="violation catalogue as functions on documents in the TLA+ layout specification, injected at enumerated sites and rendered by TLC; the real parser must reject each",
    text="13 structural violations (mixed operators at depth 0-2 for all operator pairs, misplaced direct assignment also inside parentheses, empty restriction list, wildcard+relation in both spellings, duplicate relation with five rewrite shapes at every position, duplicate condition / parameter, extend in a model, type extended twice, both / no header, container type without / with nested element type) are functions D -> D' in spec/DslLayoutMC.tla; TLC injects each at enumerated sites of documents with three name sets, renders them in the base, multi-line and random layouts, and the real parser must return a non-nil error and no model for every one.",
    note=DSL_NOTE + " That a mutated document is outside the language is by construction of the catalogue (no recogniser in the specification).")
CHECKS["C16"] = dict(level="model_checking", design="4/C16, 3.2, 3.4", technique="lexeme positions computed by the TLA+ layout specification compared with the positions the real parser reports; conflict lines computed by the Merge specification compared with the merger's",
    text="DSL half: Render in spec/DslLayout.tla yields the zero-based (line, column) of every lexeme under every layout; for the listener-raised errors of the C09 catalogue the reported position must be the position of the offending name lexeme; every positioned error of every rejected catalogue document and of seeded truncations / one-character edits must lie inside the input. Merge half: spec/Merge.tla renders module files (tight and loose layout) and knows the line of every declaration; every conflict reported by the real merger over the Merge universe and random sets must name the file and a line on which the conflicting declaration stands.",
    note=DSL_NOTE + " Columns of merge errors are not part of the statement and are not compared.")

CHECKS["C17"] = dict(level="model_checking", design="4/C17, 3.7", technique="PG(M) fold and an API automaton (Build ; Reverse^k with queries) in TLA+; TLC checks ReverseInvolution / PathDuality and prints every state; the same call sequences are executed on the real graph and compared state by state",
    text="spec/PlainGraph.tla mirrors parseModel (nodes in creation order = gonum ids, typed lines drawn from users to relations, skipped TTU parents) and the API as an automaton over (graph, direction); TLC checks ReverseInvolution, PathDuality, ReverseFlipsEveryLine, DrawnFromUsersToRelations in every state of Build ; Reverse^3/4 for the shape-menu universe and seeded random models. The real graph (each model shaped DSL-style and API-style) must show in every state the predicted nodes with ids, the typed-edge multiset, direction, PathExists for ALL pairs of public labels (also checked as transposes between g and its reverse), exact label lookup, and the cycle flags for pure computed cycles / acyclic models; DOT identical over 20-50 builds, Reversed() DOT unique, double reversal restores the DOT text.",
    note="Trusted: TLC, PG(M) as the reading of 'as the rewrite dictates'. DOT text is compared between runs, not predicted. The cycle clause is checked only for the two cases the statement fixes. Cycle flags are read through a verif-tagged accessor.")

CHECKS["C13"] = dict(level="exploration", design="4/C13, 3.7", technique="TLC enumerates call histories and concurrency scenarios from a declared-footprint specification; the harness executes them (warm process vs cold subprocess, deep input snapshots, -race build with start barrier); recorded executions are validated by TLC against the footprints",
    text="spec/Purity.tla declares for every public operation the footprint 'reads its argument, writes nothing, result a function of the argument'. TLC enumerates all call histories of length <= 2 (thorough: 3, sampled) over 12 operations x 14 pooled objects and all unordered pairs of overlapping calls (shared object or private clones). The harness runs the histories in one warm process with a deep snapshot (proto.Clone + slice identity) around every call and compares each result digest with the same call in a cold subprocess; scenarios start from a barrier in a -race build, race reports are attributed to the scenario. The recorded Begin/Write/End traces (a Write only when observed) are validated by TLC: InputsUnchanged, ResultDependsOnlyOnArgs, NoDataRace. Every validator is an operation of its own (21 operations); every operation's FIRST use in a fresh process of the race build is made concurrent (eight goroutines on distinct objects, nothing called before); error values returned by earlier calls are read again after the later calls of a history; behaviours of spec/WGraphApi.tla are replayed with the condition slices handed to AddEdge kept and watched by the caller.",
    note="Exploration level: the object pool and the repetition counts bound what is seen; the race detector reports races possible in executed paths, not all schedules. A process-wide weighted-graph builder is part of the pool (a builder must not remember earlier models).")

CHECKS["C08"] = dict(level="exploration", design="4/C08, 8", technique="model-derived input neighbourhoods generated by TLC (token mutations of the layout specification, degenerate protobuf models, pumped families) executed on every entry point under recover(); recorded outcomes / growth measurements validated by TLC",
    text="a) every valid token stream of spec/DslLayout.tla with one (exhaustive on a block of documents) or two (sampled) token deletions / duplications / substitutions / transpositions / truncations is rendered by TLC and fed to 8 text entry points; b) spec/Degenerate.tla enumerates base models x sets of holes (40 kinds of missing optional parts x sites), the harness punches them into the protobuf value and calls 6 model entry points, TLC validates TotalOnDegenerateModels on the recorded outcomes; c) spec/Pump.tla derives pumped families (49 separator / lexeme units x 7 grammatical contexts, 6 model families for the graph builders), the harness measures first-encounter work for doubling n in a fresh process per unit, TLC validates WorkWithinQuadratic; d) auxiliary, not model-derived: seeded byte mutations of the fixture corpus. A panic, a call that does not return, or super-quadratic growth is a violation. Added: a junk character (one no lexer rule starts with) glued to the end of every lexeme of valid documents - every DSL entry point, also a module list that repeats a file name, must return an error; module documents whose lines end in a bare CR or a form feed; degenerate restrictions at the head of a list; pump units with carriage returns in front of the line feed; the model family `clique` (finding D25).",
    note="Exploration level. Inputs far from any sentence are only sampled (part d); coverage-guided fuzzing would reach further but is another technique. The complexity clause is a measurement (allocation counts of the first call; wall time above 5 ms for the CPU-bound graph families; two consecutive doublings >= 4.8x).")

CHECKS["C14"] = dict(level="model_checking", design="4/C14, 3.2", technique="byte-exact TLA+ transcription of the printer incl. its sort orders (string order defined in the spec); TLC enumerates attributed models and checks SourceCommentsInert; outputs replayed over shuffled JSON key orders, permuted type definitions, repetitions and both option values",
    text="spec/Dsl.tla defines PrintM(M, on) with byte order on strings, sortByModule and the stable sorts in the specification itself; TLC enumerates a model of 2 types / 3 relations / 2 conditions under every combination of (module, file) attribution from a pool (empty module with file, file names with blank, '#', ', file:') and checks StripComments(PrintM(M, TRUE)) = PrintM(M, FALSE). For each model the real printer is called from 4-10 shuffled JSON key orders x permuted type definitions x 3 repetitions x both option values: all outputs must be byte-identical and equal to TLC's text (the documented order); stripping comments of the source-info output must give the plain output and both must parse to the model.",
    note="Trusted: TLC, PrintM as the documented order. Type definitions are permuted only for modular models. Models are also rendered carrying an id (own / shared by all models of a run): the output may not depend on it.")

CHECKS["C19"] = dict(level="other", design="4/C19, 8", technique="recorded configuration state of the generated artefacts of the three packages compared by TLC (Artefacts.tla); behavioural half for Go through documents rendered from the layout specification",
    text="The harness extracts, without executing JS or Java, the serialized lexer and parser ATNs (Go int32 literals, TS number literals, Java 16-bit word strings decoded), rule / literal / symbolic names, .interp and .tokens files, the declarations of OpenFGALexer.g4 / OpenFGAParser.g4 (rules incl. fragments, literals, modes, per-rule reference sets), the same reference sets read from the serialized Go ATN, and the listener callbacks of the Go transformer; TLC checks ArtefactsAgree, VocabularyMatchesGrammar, RuleBodiesMatchATN, ListenerCallbacksExist. Because a hand edit of the generated Go parser code leaves its ATN untouched, TLC also renders documents with each of the 6 keyword-identifiers in each identifier position and the Go parser must accept them with the tree the grammar prescribes. Added: the generated recursive-descent code itself is read as text - per rule method the sequence of parser actions (enterRule index, state numbers, matched tokens, alternatives, prediction decisions, rule calls) must be the same sequence in Go, JS and Java (ParserSkeletonsAgree), every context class must carry the index of the rule it is named after (ContextsCarryTheirRule), and the listener methods the contexts dispatch to and the listener files declare must be Enter / Exit of exactly the rules (GeneratedListenersMatchRules).",
    note="Level 'other': TLC is a comparator of recorded state here. JS / Java runtimes and the ANTLR tool are not available offline: 'accept the same texts' rests on ATN equality for them; grammar -> ATN is compared through vocabularies and per-rule reference sets, not every conceivable body edit.")

# whole-document listener automaton (round 5)
DOC_TXT = (" Impl side, whole document: spec/DslDoc.tla states the complete listener of dsltojson.go as an automaton (one action per callback, nil guards and early returns "
           "transcribed, the errors it raises with message and position, the panics a nil state would cause); spec/DslWalk.tla derives from the grammar the callback sequence of the "
           "parse-tree walk. TLC (mode mc) drives the automaton with these sequences over the document universe: ValidDocYieldsModelWritten (Impl refines ModelOf, attribution included), "
           "ViolationRaisesItsError, NeverPanics; and (mode trace) validates what the verif hook VerifDocTrace recorded at every callback of the real parser: PostStateOK after every "
           "event, NotStuck, PanicOK, Result{Types,Conds,Exts,Errs}OK at the end, WalkOK (valid documents: the real walk is the predicted one). A rejected trace is reported as DRIFT.")
CHECKS["C03"]["text"] += DOC_TXT
CHECKS["C09"]["text"] += DOC_TXT + " Here the traces are those of the violating documents: the error-recovery contexts the parser hands to the listener and the exact listener errors."
CHECKS["C08"]["text"] += (" The whole-listener automaton of spec/DslDoc.tla (see C03) must explain the recorded callback traces of every token-mutated document and byte-mutated fixture as well "
                          "(contexts with missing parts, early returns); PanicOK ties a recorded panic to the callback at which the automaton says the Go code dereferences nil.")

STEPS_TXT = (" Impl binding at decision level: spec/MergeSteps.tla conjoins every action of the Impl state machine with the event the verif hook VerifMergeTrace logged "
             "at the corresponding decision of the real merger (file ok|syntax, type dup|ext|new|notmodule, cond, extfile, exttype missing|adopt|merge, extrel dup|add): "
             "StepsAccepted, StepsNotStuck, StepsResultOK over one real merge of every file set (quick: 4,000 + the random sets). A rejected trace is reported as DRIFT.")
CHECKS["C07"]["text"] += STEPS_TXT
CHECKS["C12"]["text"] += STEPS_TXT

NOT_YET = "check not built yet in this round (see DESIGN.md section 9 for the order of work)"


def main():
    commits = subprocess.run(["git", "-C", "/repo", "log", "--format=%H %s"], stdout=subprocess.PIPE, text=True).stdout.splitlines()
    hooks = [c.split()[0] for c in commits if c.split(" ", 1)[1].startswith("verif:")]
    man = {
        "version": 1,
        "setup_cmd": "bin/setup",
        "hooks": {"guard": "verif", "enable": "go build -tags verif (the harness under /verif/harness is built with it against /repo's working tree)",
                  "baseline_off_cmd": "cd /repo/pkg/go && GOFLAGS=-mod=mod GOPROXY=off GOSUMDB=off GOTOOLCHAIN=local go test -vet=off -count=1 ./...",
                  "source_commits": hooks, "add_only": True},
        "engines": [{"name": "tlc", "path": "/opt/veriftools/tla/tla2tools.jar", "serves_properties": sorted(CHECKS), "kind_free_text": "TLA+ model checker (exhaustive, simulation, trace validation)"},
                    {"name": "fgaharness", "path": "harness/", "serves_properties": sorted(CHECKS), "kind_free_text": "Go replay/record harness built with -tags verif against /repo"}],
        "checks": [],
        "not_applicable": [],
        "notes": "See DESIGN.md. Exit 2 of a check means infrastructure failure, never a verdict. known_findings.json lists recorded and fixed defects.",
    }
    for pid in ALL:
        if pid in CHECKS:
            c = CHECKS[pid]
            man["checks"].append({
                "property_id": pid,
                "quick_cmd": "bin/check %s --tier quick" % pid,
                "thorough_cmd": "bin/check %s --tier thorough" % pid,
                "evidence_file": "evidence/%s.json" % pid,
                "replay_cmd_template": "bin/check %s --replay {path}" % pid,
                "engine": "tlc",
                "level_claimed": {"category": c["level"], "text": c["text"], "design_ref": c["design"]},
                "level_note": c["note"],
                "technique": c["technique"],
            })
        else:
            man["not_applicable"].append({"property_id": pid, "reason": NOT_YET})
    json.dump(man, open(os.path.join(V, "MANIFEST.json"), "w"), indent=1)
    print("MANIFEST.json: %d checks, %d not applicable" % (len(man["checks"]), len(man["not_applicable"])))


if __name__ == "__main__":
    main()
