#!/usr/bin/env python3
"""tools/import_seed.py <ID> <mK> <pkg> "<confirmation line>"  : copies a confirmed seeded change from /tmp/seedout into /verif/seeded."""
import json, os, shutil, sys
pid, mk, pkg, conf = sys.argv[1:5]
src = "/tmp/seedout/%s/%s" % (pid, mk)
dst = "/verif/seeded/%s-%s" % (pid, mk)
os.makedirs(dst, exist_ok=True)
shutil.copy(src + ("/patch.rebased.diff" if os.path.exists(src + "/patch.rebased.diff") else "/patch.diff"), dst + "/patch.diff")
for f in os.listdir(src):
    if f.startswith("demo"):
        if os.path.isdir(src + "/" + f):
            shutil.copytree(src + "/" + f, dst + "/" + f, dirs_exist_ok=True)
        else:
            shutil.copy(src + "/" + f, dst)
meta = json.load(open(src + "/meta.json"))
meta["breaks_property"] = pid
meta["demo_package_dir"] = "pkg/go/" + pkg
meta["confirmed"] = {"by": "tools/confirm_seed.sh in a scratch worktree of /repo HEAD (removed afterwards)", "result": conf,
                     "ran": ["git apply patch.diff", "cd pkg/go && go test -vet=off -count=1 ./...   (suite: pass)",
                             "copy demo_test.go into " + "pkg/go/" + pkg + " and go test -run <demo>   (fails with the change, passes without)"]}
json.dump(meta, open(dst + "/meta.json", "w"), indent=1)
print("imported", dst)
