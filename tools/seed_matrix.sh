#!/bin/sh
# tools/seed_matrix.sh [-j N] <seed> ... : try_seed for each named seed (default: all), N at a time; prints one line per seed.
j=4; [ "$1" = "-j" ] && { j=$2; shift 2; }
seeds="$*"; [ -z "$seeds" ] && seeds=$(ls /verif/seeded)
echo $seeds | tr ' ' '\n' | xargs -P $j -I{} sh -c '/verif/tools/try_seed.sh {} 2>&1 | tail -1'
