#!/bin/sh
# tools/seed_matrix.sh [-j N] <seed> ... : try_seed for each named seed (default: all), N at a time, from a snapshot copy of /verif
# (so that /verif can be edited while it runs); prints one line per seed.
j=4; [ "$1" = "-j" ] && { j=$2; shift 2; }
seeds="$*"; [ -z "$seeds" ] && seeds=$(ls /verif/seeded)
snap=$(mktemp -d /tmp/verif-snap-XXXXXX)
rsync -a --exclude .git --exclude .cache --exclude replays /verif/ "$snap"/
mkdir -p /verif/.cache "$snap/replays"; ln -s /verif/.cache "$snap/.cache"
echo $seeds | tr ' ' '\n' | VERIF_SNAP="$snap" xargs -P $j -I{} sh -c '/verif/tools/try_seed.sh {} 2>&1 | tail -1'
rm -rf "$snap"
