#!/bin/sh
# tools/confirm_seed.sh <seedout dir containing patch.diff, demo_test.go, meta.json> <pkg dir relative to pkg/go, e.g. graph>
# Confirms in a scratch worktree of /repo HEAD: suite passes with the change, demo fails with it and passes without it.
d="$1"; pkg="$2"
# RACE=1: the demonstration needs the race detector (go test -race)
RACEFLAG=""; [ -n "$RACE" ] && RACEFLAG="-race"
export GOFLAGS=-mod=mod GOPROXY=off GOSUMDB=off GOTOOLCHAIN=local
wt=$(mktemp -d /tmp/confirm-XXXXXX); rmdir "$wt"
git -C /repo worktree add --detach "$wt" HEAD >/dev/null 2>&1 || exit 3
res=""
# a patch written against an older HEAD (a hook or fix commit arrived meanwhile) is merged three-way; the diff against the current
# HEAD is kept as patch.rebased.diff and is what gets imported
( cd "$wt" && { git apply "$d/patch.diff" 2>/dev/null || git apply -3 "$d/patch.diff"; } ) || { echo "APPLY-FAILED"; git -C /repo worktree remove --force "$wt"; exit 3; }
( cd "$wt" && git diff HEAD > "$d/patch.rebased.diff" )
if (cd "$wt/pkg/go" && go build ./... && go test -vet=off -count=1 ./... >/tmp/$$.suite 2>&1); then res="suite=pass"; else res="suite=FAIL"; fi
cp "$d/demo_test.go" "$wt/pkg/go/$pkg/zz_seed_demo_test.go"
if (cd "$wt/pkg/go" && go test $RACEFLAG -vet=off -count=1 -run 'Seed|Demo|C[0-9][0-9](R2)?M' ./$pkg/ >/tmp/$$.demo1 2>&1); then res="$res demo_with_change=PASS(bad)"; else res="$res demo_with_change=fail"; fi
( cd "$wt" && git checkout -q HEAD -- . && git reset -q )
if (cd "$wt/pkg/go" && go test $RACEFLAG -vet=off -count=1 -run 'Seed|Demo|C[0-9][0-9](R2)?M' ./$pkg/ >/tmp/$$.demo2 2>&1); then res="$res demo_clean=pass"; else res="$res demo_clean=FAIL(bad)"; fi
echo "$d: $res"
rm -f /tmp/$$.suite /tmp/$$.demo1 /tmp/$$.demo2
git -C /repo worktree remove --force "$wt"
