#!/usr/bin/env python3
"""tools/mk_round.py <round, e.g. r5> <ID> ... : writes /tmp/seedout/<round>-<ID>.prompt.txt from tools/seed_prompt.tmpl and creates the
scratch worktree /tmp/wt/<round>-<ID> of /repo HEAD for a seeding sub-agent. The agent gets the property text and, to steer it away
from mechanisms already tried, one line per earlier seeded change of that property (agents' own summaries; nothing about the checks)."""
import json, os, glob, subprocess, sys
rnd = sys.argv[1]
props = {json.loads(l)['id']: json.loads(l) for l in open('/verif/properties.jsonl')}
tmpl = open('/verif/tools/seed_prompt.tmpl').read()
os.makedirs('/tmp/seedout', exist_ok=True); os.makedirs('/tmp/wt', exist_ok=True)
for pid in sys.argv[2:]:
    p = props[pid]
    prev = []
    for d in sorted(glob.glob('/verif/seeded/%s-m*' % pid)):
        m = json.load(open(d + '/meta.json'))
        prev.append('- ' + str(m.get('summary', ''))[:260].replace('\n', ' '))
    prop = 'ID: %s\nTitle: %s\nStatement: %s\nQuantified over: %s\n' % (pid, p['title'], p['statement'], p['quantifier']['text'])
    pv = ''
    if prev:
        pv = ('Other people have already tried the following changes for this property; produce changes that use DIFFERENT mechanisms and '
              'different code sites from these, and attack a clause / facet / input class of the statement that none of them touched '
              '(read the statement clause by clause and pick the least covered ones):\n' + '\n'.join(prev) + '\n')
    wt = '/tmp/wt/%s-%s' % (rnd, pid); out = '/tmp/seedout/%s-%s' % (rnd, pid)
    body = tmpl.replace('@WT@', wt).replace('@OUT@', out).replace('@PROP@', prop).replace('@PREV@', pv).replace('@ID@', pid)
    open('/tmp/seedout/%s-%s.prompt.txt' % (rnd, pid), 'w').write(body)
    os.makedirs(out, exist_ok=True)
    subprocess.run(['git', '-C', '/repo', 'worktree', 'add', '--detach', wt, 'HEAD'], capture_output=True)
    print(pid, len(body), os.path.isdir(wt))
