#!/bin/sh
# tools/try_seed.sh <patch.diff> <ID> [<ID> ...] : applies a seeded change to /repo, runs the quick checks, undoes it.
patch="$1"; shift
cd /verif
git -C /repo apply "$patch" || { echo "patch does not apply"; exit 3; }
for id in "$@"; do
  echo "== $id with $(basename $(dirname $patch))/$(basename $patch)"
  VERIF_TIER=${TIER:-quick} bin/check "$id" --tier ${TIER:-quick} 2>&1 | grep -v "^  [^ ]\{0\}" | grep "VIOLATION\|OK (\|violation(s)\|INFRA\|DRIFT\|KNOWN" | cut -c1-200 | sort | uniq -c | sort -rn | head -8
done
git -C /repo checkout -- . && git -C /repo status --short | head -3
