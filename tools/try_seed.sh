#!/bin/sh
# tools/try_seed.sh <seed name, e.g. C07-m3> [<ID> ...] : applies a seeded change in a scratch worktree of /repo HEAD (never to /repo
# itself), runs the quick (or $TIER) checks against it through VERIF_REPO, removes the worktree. Evidence files are restored.
# With VERIF_SNAP=<dir> the checks of that copy of /verif are used (tools/seed_matrix.sh makes one, so that /verif can be edited meanwhile).
seed="$1"; shift
ids="$*"; [ -z "$ids" ] && ids="${seed%-*}"
V="${VERIF_SNAP:-/verif}"
wt=$(mktemp -d /tmp/tryseed-XXXXXX); rmdir "$wt"
git -C /repo worktree add --detach "$wt" HEAD >/dev/null 2>&1 || exit 3
(cd "$wt" && git apply "/verif/seeded/$seed/patch.diff") || { echo "$seed: APPLY FAILED"; git -C /repo worktree remove --force "$wt"; exit 3; }
cd "$V"
for id in $ids; do
  cp evidence/$id.json /tmp/ev.$$.json 2>/dev/null
  echo "$seed -> $id: $(VERIF_REPO=$wt bin/check $id --tier ${TIER:-quick} 2>&1 | grep 'OK (\|violation(s)\|INFRA' | head -2 | tr '\n' ' ')"
  cp /tmp/ev.$$.json evidence/$id.json 2>/dev/null; rm -f /tmp/ev.$$.json
done
git -C /repo worktree remove --force "$wt"
