#!/bin/sh
# tools/take_round.sh <round dir prefix, e.g. r3> <ID> <pkg | auto> <first new index, e.g. 5> : confirm both changes of an agent, import them as
# m<idx>, m<idx+1>, remove its worktree. pkg = directory under pkg/go the demo goes into; auto = read demo_package_dir from each meta.json
r="$1"; id="$2"; pkg0="$3"; k="$4"
for m in 1 2; do
  src=/tmp/seedout/$r-$id/m$m
  pkg="$pkg0"
  [ "$pkg" = auto ] && pkg=$(python3 -c "import json;print(json.load(open('$src/meta.json')).get('demo_package_dir','pkg/go/graph').replace('pkg/go/','').strip('/'))")
  res=$(/verif/tools/confirm_seed.sh $src $pkg 2>&1 | tail -1)
  echo "$res"
  case "$res" in
    *"suite=pass demo_with_change=fail demo_clean=pass"*)
      n=$((k + m - 1)); mkdir -p /tmp/seedout/$id; rm -rf /tmp/seedout/$id/m$n; cp -r $src /tmp/seedout/$id/m$n
      python3 /verif/tools/import_seed.py $id m$n $pkg "suite=pass demo_with_change=fail demo_clean=pass" ;;
    *) echo "NOT IMPORTED: $id m$m" ;;
  esac
done
git -C /repo worktree remove --force /tmp/wt/$r-$id 2>/dev/null; git -C /repo worktree prune
