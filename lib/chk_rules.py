"""C18 - tuple-field validators.  Specification: spec/Rules.tla.

MC : TLC enumerates every class string <= MaxLen and a set of boundary strings (run-length encoded) and checks on the
     Impl layer (the rule strings as regex items + matcher) the four Ideal properties UniqueDecomposition,
     UserExactlyOneKind, NoSeparatorInParts, LimitsExact.
RP : every enumerated string, instantiated with three representatives per character class, goes through the nine real
     validators; verdict vectors must equal the specification's; the decomposition clauses are also evaluated on the
     real validators themselves (split at ':' / '#', re-validate the parts).
TV : the rule strings and composition patterns logged from the Go, TypeScript and Java sources are validated by TLC
     against the strings the specification was transcribed from (RuleStringsAgree, PatternsAgree).
"""
import json

from vlib import *

CFG = """INIT %(mode)sInit
NEXT %(mode)sNext
CONSTANTS
  MaxLen = %(maxlen)d
  EnumClasses = %(classes)s
INVARIANTS %(inv)s
CHECK_DEADLOCK FALSE
"""
VALIDATORS = ["object", "objectid", "relation", "userset", "userobject", "userwildcard", "user", "condition", "type"]


def compare(chk, recs, obs, variants):
    byidx = {}
    for o in obs:
        byidx.setdefault(o["idx"], []).append(o)
    for i, r in enumerate(recs):
        for o in byidx.get(i, []):
            desc = r.get("s") if r["rec"] == "str" else "rle %s" % [(x["c"], x["n"]) for x in r["rle"]]
            rep = {"class_string": r.get("s"), "rle": r.get("rle"), "variant": o["variant"], "concrete": o.get("str"), "spec": r["v"], "real": o["v"]}
            diff = [k for k in VALIDATORS if bool(r["v"][k]) != bool(o["v"][k])]
            if diff:
                chk.violation("validators %s disagree with the rules on %s (variant %d, %r): real %s" % (diff, desc, o["variant"], o.get("str"), {k: o["v"][k] for k in diff}), rep)
            elif not o["obj_split"]:
                chk.violation("accepted object %s does not split at its single ':' into an accepted type and id" % desc, rep)
            elif not o["us_split"]:
                chk.violation("accepted userset %s does not split into accepted type, id and relation" % desc, rep)
            elif o["v"]["user"] and o["user_kinds"] != 1:
                chk.violation("accepted user %s is %d kinds at once" % (desc, o["user_kinds"]), rep)
            chk.add("evaluations")


def run(pid, tier):
    chk = Check(pid, tier, "model_checking")
    sc = Scratch()
    try:
        binary = build_harness(sc)
        ALL = '{":", "#", "@", "*", " ", "T", "N", "a", "_", "-", "U"}'
        # (classes, maximal length, concrete instantiations per class string): all classes to a short length, the
        # separators that carry the structure of the rules to a longer one
        plans = [(ALL, 3, 3), ('{":", "#", "*", "a", "_", " "}', 5, 1), ('{":", "#", "*", "a"}', 6, 1)] if tier == "quick" else \
                [(ALL, 5, 2), ('{":", "#", "*", "@", "a", "_", " "}', 6, 1), ('{":", "#", "*", "a"}', 8, 1)]
        maxlen = plans[0][1]
        variants = plans[0][2]
        bound = run_tlc("Rules", CFG % {"mode": "Bound", "maxlen": maxlen, "classes": ALL, "inv": "BoundOK"}, sc, cache=True, timeout=3000, xss="512m")
        if bound.violated:
            raise Infra("BoundOK violated on the Impl layer of spec/Rules.tla:\n%s" % bound.tail[-1500:])
        runs = [(bound, "bound", variants)]
        class E:      # accumulates the enumeration runs
            records, distinct, generated = [], 0, 0
        enum = E()
        for k, (classes, ml, var) in enumerate(plans):
            r = run_tlc("Rules", CFG % {"mode": "Enum", "maxlen": ml, "classes": classes, "inv": "EnumOK"}, sc, cache=True, timeout=3000)
            if r.violated:
                raise Infra("EnumOK violated on the Impl layer of spec/Rules.tla:\n%s" % r.tail[-1500:])
            log("TLC: %d class strings <= %d over %s (%.0fs)%s" % (len(r.records), ml, classes, r.wall, " (cached)" if r.cached else ""))
            runs.append((r, "enum%d" % k, var))
            enum.records += r.records
            enum.distinct += r.distinct
            enum.generated += r.generated
        log("TLC: %d boundary strings (%.0fs); the four C18 invariants hold on the rules" % (len(bound.records), bound.wall))
        for r, tag, var in runs:
            inp, out = sc.path(tag + ".in.ndjson"), sc.path(tag + ".out.ndjson")
            write_ndjson(inp, r.records)
            run_harness(binary, ["rules-replay", "-in", inp, "-out", out, "-variants", str(var)])
            compare(chk, r.records, read_ndjson(out), var)
        # configuration trace
        lg = sc.path("rules_logged.ndjson")
        run_harness(binary, ["rules-config", "-repo", REPO, "-out", lg])
        logged = read_ndjson(lg)
        rules = {(l["lang"], l["name"]) for l in logged if l["kind"] == "rule"}
        missing = [(lang, n) for lang in ("go", "js", "java") for n in ("type", "relation", "condition", "id", "object") if (lang, n) not in rules]
        if missing:
            raise Infra("cannot locate the rule strings %s in the sources (the extraction patterns of harness/rules.go no longer fit)" % missing)
        cfg = run_tlc("Rules", CFG % {"mode": "Cfg", "maxlen": maxlen, "classes": ALL, "inv": "RuleStringsAgree PatternsAgree"}, sc, data_files={"rules_logged.ndjson": lg}, keep_raw=True)
        if "RuleStringsAgree" in cfg.violated:
            bad = [l for l in logged if l["kind"] == "rule"]
            byname = {}
            for l in bad:
                byname.setdefault(l["name"], {})[l["lang"]] = l["value"]
            differing = {n: v for n, v in byname.items() if len(set(v.values())) > 1}
            if differing:
                chk.violation("rule strings differ between the language packages: %s" % differing, {"logged": bad})
            else:
                chk.violation("rule strings of all packages changed consistently but no longer are the ones the specification describes: %s" % byname, {"logged": bad})
        elif cfg.violated:
            chk.drift.append({"config": "composition patterns differ from the specification's", "logged": [l for l in logged if l["kind"] == "pattern"]})
        patterns = {(l["lang"], l["value"]) for l in logged if l["kind"] == "pattern"}
        chk.cov.update(states=enum.distinct + bound.distinct + cfg.distinct, transitions=enum.generated + bound.generated + cfg.generated,
                       traces_validated_against_impl=len(logged), distinct_nontrivial=len(enum.records) + len(bound.records),
                       rule="all strings over character-class alphabets (plans: %s = classes, max length, instantiations per string) + %d boundary-length strings; "
                            "non-trivial = every string (the empty string is not generated)" % (plans, len(bound.records)),
                       exhaustive=True, patterns_logged=len(patterns))
        for r in enum.records[:2] + bound.records[:2]:
            chk.sample({k: r[k] for k in r if k != "v"} | {"accepted_by": [k for k in VALIDATORS if r["v"][k]]})
        chk.assumptions += ["whitespace = the class \\s of RE2 (blank, \\t \\n \\f \\r); \\v and Unicode spaces are not generated",
                            "JS / Java packages are compared by rule string and composition pattern only (no runtime for them in the sandbox)"]
        return chk.finish()
    finally:
        sc.cleanup()


def replay(pid, path):
    r = json.load(open(path))
    chk = Check(pid, "quick", "model_checking")
    sc = Scratch()
    try:
        binary = build_harness(sc)
        if r.get("rle"):
            rec = {"rec": "rle", "rle": r["rle"], "v": r["spec"]}
        else:
            rec = {"rec": "str", "s": r["class_string"], "v": r["spec"]}
        inp, out = sc.path("r.in.ndjson"), sc.path("r.out.ndjson")
        write_ndjson(inp, [rec])
        run_harness(binary, ["rules-replay", "-in", inp, "-out", out, "-variants", "5"])
        compare(chk, [rec], read_ndjson(out), 5)
        log("replay of %s: %s" % (path, "still violates" if chk.violations else "no violation"))
        return 1 if chk.violations else 0
    finally:
        sc.cleanup()
