"""C04, C05, C06, C10, C11 - weighted graph.  Specification: spec/WGraph.tla (+ WGraphMC, WGraphTrace).

Pipeline (DESIGN.md 2.3):
  MC   : TLC explores every model of a bounded universe x every DFS root order on the Impl layer, evaluates the
         design-level invariants and prints, per model, the Ideal outcome and every distinct Impl outcome with a
         witness root order.
  RP   : the harness builds the real graph for every model: natural order (logged), every witness order and all
         (or sampled) permutations forced through the verif hook.
  TV   : seeded random larger models are run on the real code with natural orders; TLC replays each logged root
         order through the Impl layer (trace = model + logged schedule) and evaluates the Ideal layer on it.
  Verdicts come from real observations only: real == Ideal -> ok; real != Ideal, real == Impl prediction and the class
  predicate of a listed finding holds -> known finding; otherwise VIOLATION.
"""
import json
import os

from vlib import *

# deviations of the code as it stands (after the fix: commits); VERIF_DEVS overrides it for experiments with older trees
DEVS_CURRENT = os.environ.get("VERIF_DEVS", '{}')

MC_CFG = """SPECIFICATION Spec
CONSTANTS
  Inputs <- MCInputs
  Devs = %(devs)s
  defaultInitValue = defaultInitValue
  NFree = %(nfree)d
  MenuSeq <- MenuSeqV
  Menu2Seq <- Menu2SeqV
CHECK_DEADLOCK FALSE
VIEW View
INVARIANTS
  NoPlaceholderVisible
  NoEmptyWeights
  WildcardsAreReachablePublicTypes
  AcceptIffWellFounded
  RewriteCycleNeverAccepted
  WeightsAreTrueMaxHops
  EdgeWeightIsTargetPlusHop
"""

TRACE_CFG = """SPECIFICATION Spec
CONSTANTS
  Inputs <- TraceInputs
  Devs = %(devs)s
  defaultInitValue = defaultInitValue
CHECK_DEADLOCK FALSE
VIEW TraceView
CONSTRAINT EvOK
INVARIANTS
  NoPlaceholderVisible
  NoEmptyWeights
  WildcardsAreReachablePublicTypes
  AcceptIffWellFounded
  RewriteCycleNeverAccepted
  WeightsAreTrueMaxHops
  EdgeWeightIsTargetPlusHop
"""

if os.environ.get("VERIF_DEVS", "{}") != "{}":      # experiment with an older tree: the Ideal-comparing invariants are expected to fail
    for inv in ("AcceptIffWellFounded", "RewriteCycleNeverAccepted", "NoEmptyWeights", "WeightsAreTrueMaxHops", "EdgeWeightIsTargetPlusHop"):
        MC_CFG = MC_CFG.replace("  " + inv + "\n", "")
        TRACE_CFG = TRACE_CFG.replace("  " + inv + "\n", "")

SENTINELS = {"modelcycle", "tuplecycle", "invalid"}


def rows(x):
    return frozenset(tuple(r) for r in x)


def okey(result, nw, ew, nwc, ewc):
    return (result.split(":")[0], rows(nw), rows(ew), rows(nwc), rows(ewc))


def real_key(o):
    return okey(o["result"], o["nw"], o["ew"], o["nwc"], o["ewc"])


def impl_key(o):
    return okey(o["result"], o["nw"], o["ew"], o["nwc"], o["ewc"])


def spec_structure(g):
    nodes = sorted((n["id"], n["nt"], n["label"]) for n in g["nodes"])
    edges = {}
    for e in g["edges"]:
        edges.setdefault(e["from"], []).append((e["to"], e["kind"], e["ts"], tuple(e["conds"])))
    return nodes, edges


def real_structure(st):
    nodes = sorted((n["id"], n["nt"], n["label"]) for n in st["nodes"])
    edges = {f: [(e["to"], e["kind"], e["ts"], tuple(e["conds"])) for e in es] for f, es in st["edges"].items() if es}
    return nodes, edges


class Model:
    """everything known about one input model: TLC's prediction and the real observations"""

    def __init__(self, inp):
        self.id = inp["id"]
        self.m = inp["m"]
        self.g = inp["g"]
        self.ideal = inp["ideal"]
        self.multi = inp["multi"]
        self.reseed = inp.get("reseed", False)
        self.impl = {}          # impl outcome key -> witness roots
        self.obs = None


def collect(records):
    models = {}
    for r in records:
        if r["rec"] == "input":
            models.setdefault(r["id"], Model(r))
    for r in records:
        if r["rec"] == "outcome":
            models[r["id"]].impl.setdefault(impl_key(r["out"]), r["roots"])
    return models


KNOWN_IDS = set()


def ttu_occurrences(m):
    """(number of TTU edges the statement of C10 asks for, whether some operator has one tuple-to-userset twice among its operands)"""
    total, repeated = 0, False
    for t in m["types"]:
        rd = {r["name"]: r for r in t["rels"]}

        def walk(tree):
            nonlocal total, repeated
            if tree["k"] == "ttu":
                total += len({x["t"] for x in rd[tree["ts"]]["restr"]}) if tree["ts"] in rd else 0
            for c in tree.get("ch") or []:
                walk(c)
            keys = [(c["ts"], c["rel"]) for c in tree.get("ch") or [] if c["k"] == "ttu"]
            repeated = repeated or len(keys) != len(set(keys))
        for r in t["rels"]:
            walk(r["rw"])
    return total, repeated


def judge(chk, pid, md, findings_d11):
    """Compares the real observations of one model with the Ideal layer for property pid."""
    obs = md.obs
    ideal = md.ideal
    wellfounded = len(ideal["reasons"]) == 0
    ideal_tw, ideal_ew = rows(ideal["tw"]), rows(ideal["ew"])
    ideal_wild, ideal_ewild = rows(ideal["wild"]), rows(ideal["ewild"])
    replay = {"model": md.m, "model_id": md.id, "ideal": {"reasons": ideal["reasons"]}}

    def kf_or_violation(o, what):
        """clause 2 of DESIGN 5.3: Impl predicts exactly this outcome for this model AND the class predicate of a listed finding holds"""
        if real_key(o) in md.impl and findings_d11:
            if md.multi:
                chk.known_finding("D11")
                return
            if md.reseed:
                chk.known_finding("D16")
                return
        chk.violation(what, dict(replay, roots=o["roots"], forced=o["forced"], observed={k: o.get(k) for k in ("result", "err", "nw", "ew", "nwc", "ewc")},
                                 ideal_full=ideal))

    if pid == "C10":
        if md.g["err"] != "none":
            if not obs.get("builderr"):
                chk.violation("builder accepted a tuple-to-userset the specification rejects (%s)" % md.g["err"], dict(replay, spec_err=md.g["err"]))
        elif obs.get("builderr"):
            chk.violation("builder failed before weights (%s) but Graph(M) has no construction error" % obs["builderr"], replay)
        else:
            sn, se = spec_structure(md.g)
            rn, re_ = real_structure(obs["structure"])
            if sn != rn:
                chk.violation("node set differs from Graph(M): spec-only %s real-only %s" % (sorted(set(sn) - set(rn))[:4], sorted(set(rn) - set(sn))[:4]),
                              dict(replay, spec_nodes=sn, real_nodes=rn))
            elif se != re_:
                diff = [f for f in set(se) | set(re_) if se.get(f) != re_.get(f)]
                chk.violation("edges differ from Graph(M) at %s: spec %s real %s" % (diff[:2], [se.get(f) for f in diff[:2]], [re_.get(f) for f in diff[:2]]),
                              dict(replay, spec_edges={k: v for k, v in se.items()}, real_edges={k: v for k, v in re_.items()}))
            # independent of Graph(M) (which transcribes the builder's edge de-duplication): "a tuple-to-userset yields one TTU edge per
            # parent type of the tupleset", counted over every occurrence of a tuple-to-userset in the rewrites
            if sn == rn and md.g.get("err", "none") == "none":
                want, repeated = ttu_occurrences(md.m)
                got = sum(len([e for e in es if e[1] == "ttu"]) for es in re_.values())
                if got != want:
                    if repeated and got < want and se == re_ and "D23" in KNOWN_IDS:
                        chk.known_finding("D23")
                    else:
                        chk.violation("the graph has %d tuple-to-userset edges, the rewrites ask for %d (one per parent type per occurrence)" % (got, want), dict(replay, real_edges=re_))
        if not obs["model_unchanged"]:
            chk.violation("Build modified the model it was given", replay)
        if obs.get("shared_structure_differs"):
            chk.violation("the same model with structurally equal rewrite subtrees shared (one message value in several places) gives a different graph structure", replay)
        if obs.get("api_structure_differs"):
            chk.violation("the same model written API-style (metadata only for directly assignable relations) gives a different graph structure", replay)
        return

    outcomes = obs["outcomes"]
    if pid == "C06":
        # "the same verdict (accepted or rejected) and, when accepted, the same weights and wildcard sets": which of the
        # three errors a rejected model gets is not part of the statement
        def vkey(o):
            return real_key(o) if o["result"] == "ok" else ("rejected",)
        keys = {vkey(o) for o in outcomes}
        for extra in ("typeperm", "conc"):
            for o in obs.get(extra) or []:
                keys.add(vkey(o))
        if len(keys) > 1:
            a, b = outcomes[0], next((o for o in outcomes + (obs.get("typeperm") or []) + (obs.get("conc") or []) if vkey(o) != vkey(outcomes[0])))
            what = "two builds of one model differ: roots %s -> %s ; roots %s -> %s" % (a["roots"], a["result"], b["roots"], b["result"])
            if (md.multi or md.reseed) and all(real_key(o) in md.impl for o in outcomes) and findings_d11:
                chk.known_finding("D11" if md.multi else "D16")
            else:
                chk.violation(what, dict(replay, a={k: a[k] for k in ("result", "roots", "nw", "nwc")}, b={k: b[k] for k in ("result", "roots", "nw", "nwc")}))
        skeys = {vkey(o) for o in obs.get("splitperm") or []}
        if len(skeys) > 1:
            a, b = obs["splitperm"][0], obs["splitperm"][1]
            chk.violation("a model in which one type is defined in two parts: the order of the type definitions changes the outcome (%s vs %s)" % (a["result"], b["result"]),
                          dict(replay, a={k: a[k] for k in ("result", "nw", "nwc")}, b={k: b[k] for k in ("result", "nw", "nwc")}))
        for op in obs.get("opperm") or []:
            if (op["result"] == "ok") != (op["base"] == "ok") or op["rel_rows"] != op["base_rows"]:
                what = "reordering commutative operands (%s) changes relation weights/verdict: %s vs %s" % (op["desc"], op["base"], op["result"])
                if (md.multi or md.reseed) and findings_d11:
                    chk.known_finding("D11" if md.multi else "D16")
                else:
                    chk.violation(what, dict(replay, opperm=op))
        return

    for o in outcomes:
        accepted = o["result"] == "ok"
        if pid == "C05":
            if o["result"] == "panic" or (not accepted and o["result"] not in SENTINELS):
                chk.violation("builder failed with something else than the three sentinel errors: %s %s" % (o["result"], o.get("err")), dict(replay, roots=o["roots"]))
            elif accepted != wellfounded:
                if accepted and "rewritecycle" in ideal["reasons"]:
                    # no exception for this clause: never accepted, whatever else the model contains
                    chk.violation("model with a tuple-free rewrite cycle accepted (roots %s)" % o["roots"], dict(replay, roots=o["roots"], forced=o["forced"]))
                else:
                    kf_or_violation(o, "verdict %s but Ideal says %s (reasons %s), roots %s" % (o["result"], "well-founded" if wellfounded else "ill-founded", ideal["reasons"], o["roots"]))
        elif pid == "C04":
            if not accepted:
                continue
            nwT = rows([r[0], r[2], r[3]] for r in o["nw"] if r[1] == "T")
            ewT = rows([r[0], r[1], r[3], r[4]] for r in o["ew"] if r[2] == "T")
            if any(r[1] != "T" for r in o["nw"]) or any(r[2] != "T" for r in o["ew"]):
                chk.violation("unresolved cycle placeholder visible in an accepted graph (roots %s)" % o["roots"], dict(replay, roots=o["roots"], nw=o["nw"], ew=o["ew"]))
                continue
            relnodes = {n["id"] for n in md.g["nodes"] if n["nt"] == "rel"}
            empty = relnodes - {r[0] for r in o["nw"]}
            if empty:
                chk.violation("relation(s) %s left with an empty weight map in an accepted graph" % sorted(empty), dict(replay, roots=o["roots"]))
                continue
            if not wellfounded:
                continue        # C05's business
            if nwT != ideal_tw:
                d = sorted(nwT ^ ideal_tw)[:6]
                kf_or_violation(o, "node weights differ from true max hops (roots %s): symmetric difference %s" % (o["roots"], d))
            elif ewT != ideal_ew:
                d = sorted(ewT ^ ideal_ew)[:6]
                kf_or_violation(o, "edge weights differ from target+hop (roots %s): symmetric difference %s" % (o["roots"], d))
        elif pid == "C11":
            if not accepted:
                continue
            if o["wdup"]:
                chk.violation("duplicate entry in a wildcard list (roots %s)" % o["roots"], dict(replay, roots=o["roots"], nwc=o["nwc"], ewc=o["ewc"]))
            elif rows(o["nwc"]) != ideal_wild:
                chk.violation("node wildcards differ from reachable public types (roots %s): %s" % (o["roots"], sorted(rows(o["nwc"]) ^ ideal_wild)[:6]),
                              dict(replay, roots=o["roots"], nwc=o["nwc"], ideal_wild=ideal["wild"]))
            elif rows(o["ewc"]) != ideal_ewild:
                chk.violation("edge wildcards differ from those of the target (roots %s): %s" % (o["roots"], sorted(rows(o["ewc"]) ^ ideal_ewild)[:6]),
                              dict(replay, roots=o["roots"], ewc=o["ewc"], ideal_ewild=ideal["ewild"]))


def binding(chk, md):
    """Impl <-> code: every real outcome must be one the Impl layer predicts for this model; witness orders exactly."""
    obs = md.obs
    if not obs["hook_consistent"] and not obs["model_unchanged"]:
        # the self-check builds one model object several times: a builder that modifies the model it is given makes the builds differ.
        # That is an observation about the code (C10 / C13: "building never modifies the model"; C06: same model object, different outcome)
        chk.notes.append("model %s: Build modified its model, the hook self-check is void for it" % md.id)
        if chk.pid in ("C06", "C10", "C13"):
            chk.violation("Build modified the model it was given (a second build of the same model object gives another outcome)", {"model": md.m, "id": md.id})
    elif not obs["hook_consistent"]:
        # the forced-order copy of the AssignWeights loop disagrees with the natural loop (the loop was changed and the copy was not, or the
        # outcome depends on state outside the run): forced orders say nothing about this tree - the natural runs are still runs of the
        # real code and are judged; without a verdict from them the check ends as an infrastructure failure (chk.hook_void)
        chk.notes.append("model %s: verif hook self-check failed, forced root orders are left out" % md.id)
        chk.hook_void = True
        obs["outcomes"] = [o for o in obs["outcomes"] if not o.get("forced")]
    for o in obs["outcomes"]:
        if real_key(o) not in md.impl:
            chk.drift.append({"model": md.id, "roots": o["roots"], "real": o["result"], "impl_outcomes": sorted({k[0] for k in md.impl})})
        else:
            chk.add("outcomes_explained_by_impl")


def replay_findings(chk, pid, binary, scratch):
    """Deterministic replay of every listed finding's witness; prints KNOWN-FINDING iff it still fails."""
    active = []
    for f in load_findings():
        if f["status"] != "known" or pid not in f["properties"] or f.get("spec") != "wgraph":
            continue
        if "m" not in f.get("witness", {}):          # structural findings (D23) are counted where they are observed, see judge()
            KNOWN_IDS.add(f["id"])
            continue
        inp = scratch.path("kf-%s.ndjson" % f["id"])
        out = scratch.path("kf-%s.out.ndjson" % f["id"])
        write_ndjson(inp, [{"id": f["id"], "m": f["witness"]["m"], "roots": [f["witness"]["roots"]]}])
        run_harness(binary, ["wg-replay", "-in", inp, "-out", out, "-natural", "1", "-maxperm", "1"])
        o = read_ndjson(out)[0]["witness"][0]
        exp = f["witness"]["fails_as"]
        still = all(o.get(k) == v for k, v in exp["observed"].items()) if "observed" in exp else False
        if "nw_contains" in exp:
            still = o["result"] == "ok" and all(r in o["nw"] for r in exp["nw_contains"]) and all(r not in o["nw"] for r in exp.get("nw_lacks", []))
        if still:
            log("KNOWN-FINDING: property=%s %s: %s" % (pid, f["id"], f["what"]))
            active.append(f["id"])
        else:
            log("note: listed finding %s no longer reproduces on its witness (observed %s)" % (f["id"], o["result"]))
    return active


def trace_models(chk, pid, binary, sc, gen, d11, natural, maxperm):
    """TV direction: run the real builder on the models of `gen`, let TLC replay every logged run through Impl: the DFS roots in the
    order the run took them resolve the schedule, and every step of the weight assignment the hook VerifOnWeightStep logged (edge /
    node / root returned: cycle set, error class, weights with placeholders, wildcards; whole state at a root) must be what the Impl
    layer holds at the same point (WGraph.tla 4b). Behaviours that part from the logged events are pruned (CONSTRAINT EvOK); a run
    is validated when some behaviour passes all its events and ends in the outcome the run ended in."""
    gobs = sc.path("gen.obs.ndjson")
    args = ["wg-replay", "-in", gen, "-out", gobs, "-seed", str(SEED), "-echo", "-events", "-natural", natural, "-maxperm", maxperm]
    if pid == "C06":
        args += ["-perm", "-conc", "8"]
    run_harness(binary, args)
    obs = {o["id"]: o for o in read_ndjson(gobs)}
    traces = []
    nevents = 0
    for o in obs.values():
        for k, oc in enumerate(o["outcomes"][:6]):
            t = {"id": o["id"], "m": o["m"], "roots": oc["roots"], "strict": True, "run": k}
            if oc.get("events") is not None and oc["result"] != "panic" and not o.get("builderr"):
                t["events"] = oc["events"]
                nevents += len(oc["events"])
            traces.append(t)
    # (TLC re-reads the trace file for every trace it starts - see II.3 - so the traces go to TLC in files of 100)
    class _Acc:
        records, distinct, generated, wall = [], 0, 0, 0.0
    res = _Acc()
    for c0 in range(0, len(traces), 100):
        tf = sc.path("wg_traces.ndjson")
        write_ndjson(tf, traces[c0:c0 + 100])
        part = run_tlc("WGraphTrace", TRACE_CFG % {"devs": DEVS_CURRENT}, sc, data_files={"wg_traces.ndjson": tf}, timeout=3000)
        if part.violated:
            raise Infra("design-level invariant(s) %s violated on the Impl layer for a recorded trace\n%s" % (part.violated, part.tail[-1500:]))
        res.records = res.records + part.records
        res.distinct += part.distinct
        res.generated += part.generated
        res.wall += part.wall
    # outcome records of behaviours that passed every logged event; mismatches keep the longest matched prefix per model
    accepted = [r for r in res.records if r["rec"] != "outcome" or (r.get("evbad", 0) == 0 and r.get("evall", True))]
    mism = {}
    for r in res.records:
        if r["rec"] == "evmismatch":
            if r["id"] not in mism or r["n"] > mism[r["id"]]["n"]:
                mism[r["id"]] = r
    models = collect([r for r in accepted if r["rec"] != "evmismatch"])
    validated = ev_ok = 0
    for md in models.values():
        md.obs = obs[md.id]
        binding(chk, md)
        judge(chk, pid, md, d11)
        chk.add("real_builds", md.obs["runs"])
        for oc in md.obs["outcomes"][:6]:
            if real_key(oc) in md.impl:
                validated += 1
                ev_ok += len(oc.get("events") or [])
            elif md.id in mism:
                mm = mism[md.id]
                chk.drift.append({"model": md.id, "weight_step": mm["n"], "impl_holds": {k: v for k, v in mm["got"].items() if k != "full"}, "logged": mm["want"]})
    chk.add("traces_validated_against_impl", validated)
    chk.add("weight_steps_validated", ev_ok)
    log("recorded models: %d models, %d runs (logged root orders, %d weight-assignment steps), %d runs / %d steps validated against Impl, TLC %.0fs"
        % (len(models), len(traces), nevents, validated, ev_ok, res.wall))
    return list(models.values()), res.distinct, res.generated, validated, len(traces)


def event_validate(sc, traces):
    """TLC on recorded runs alone (bin/selftest): ids of the traces some Impl behaviour follows through every logged step, and the
    first step at which the others part."""
    tf = sc.path("wg_traces.ndjson")
    write_ndjson(tf, traces)
    res = run_tlc("WGraphTrace", TRACE_CFG % {"devs": DEVS_CURRENT}, sc, data_files={"wg_traces.ndjson": tf}, timeout=1500)
    ok = {r["id"] for r in res.records if r["rec"] == "outcome" and r.get("evbad", 0) == 0 and r.get("evall", True)}
    first = {}
    for r in res.records:
        if r["rec"] == "evmismatch":
            first[r["id"]] = max(first.get(r["id"], 0), r["n"])
    return ok, first


API_CFG = """SPECIFICATION SimSpec
CONSTANTS MaxSteps = 20
CHECK_DEADLOCK FALSE
INVARIANTS CondListsNeverEmpty EdgesBetweenNodes WildcardSeed
PROPERTIES UpsertKeepsEdgesDistinct UpsertAddsNoDuplicate
"""


def api_automaton(chk, binary, sc, tier, purity_pid=False):
    """Spec -> code: behaviours of the construction API automaton (spec/WGraphApi.tla, TLC -simulate) are stepped through the
    real graph object; return value and projected state are compared after every call. The automaton is the layer the
    builder of C10 is written in; a divergence is DRIFT of that layer (reported, not a verdict on a model)."""
    res = run_tlc("WGraphApi", API_CFG, sc, simulate=60 if tier == "quick" else 1500, depth=24, seed=SEED, workers=8, timeout=1500)
    if res.violated:
        raise Infra("design-level property %s of spec/WGraphApi.tla violated\n%s" % (res.violated, res.tail[-1200:]))
    beh = [r for r in res.records if r.get("rec") == "behaviour"]
    if not beh:
        raise Infra("TLC generated no behaviour of WGraphApi\n" + res.tail[-800:])
    inp, out = sc.path("api.in.ndjson"), sc.path("api.out.ndjson")
    write_ndjson(inp, [{"id": "b%d" % i, "steps": [{"op": s["op"], "args": s["args"]} for s in b["steps"]]} for i, b in enumerate(beh)])
    run_harness(binary, ["wgapi-replay", "-in", inp, "-out", out])
    steps = off = 0
    for b, o in zip(beh, read_ndjson(out)):
        for k, (s, r) in enumerate(zip(b["steps"], o["steps"])):
            steps += 1
            want_nodes = sorted((n[0], n[1], tuple(n[2])) for n in s["post"]["nodes"])
            got_nodes = sorted((n[0], n[1], tuple(n[2])) for n in r["nodes"])
            want_edges = sorted((e[0], e[1], e[2], e[3], e[4], tuple(e[5])) for e in s["post"]["edges"])
            got_edges = sorted((e[0], e[1], e[2], e[3], e[4], tuple(e[5])) for e in r["edges"])
            # the concrete state must be well formed beyond the projection: labels agree, edges know their source, nothing weighted yet
            wellformed = all(n[0] == n[3] == n[4] for n in r["nodes"]) and all(e[6] == e[0] and e[7] == 0 and e[8] == 0 for e in r["edges"])
            if r.get("caller_slice_written") and purity_pid:
                chk.violation("the condition list a caller handed to AddEdge was written to by a later call (call %d of behaviour %s: %s%s)" % (k + 1, o["id"], s["op"], s["args"]),
                              {"calls": [[x["op"]] + x["args"] for x in b["steps"][:k + 1]], "mode": "construction API automaton"})
                off += 1
                break
            if s["ret"] != r["ret"] or want_nodes != got_nodes or want_edges != got_edges or not wellformed:
                off += 1
                chk.drift.append({"api_automaton": "step %d of behaviour %s: %s%s" % (k + 1, o["id"], s["op"], s["args"]), "spec": {"ret": s["ret"], "edges": want_edges[:6]},
                                  "real": {"ret": r["ret"], "edges": got_edges[:6]}, "calls": [[x["op"]] + x["args"] for x in b["steps"][:k + 1]]})
                break
    log("construction API automaton: %d behaviours / %d calls generated by TLC (-simulate) and stepped through the real graph object, state compared after every call (%d behaviours off)"
        % (len(beh), steps, off))
    chk.add("api_behaviours_replayed", len(beh))
    chk.add("api_calls_compared", steps)
    return res


def replay(pid, path):
    """bin/check <ID> --replay <file>: re-executes exactly the recorded case against the current tree and re-classifies it."""
    r = json.load(open(path))
    chk = Check(pid, "quick", "model_checking")
    sc = Scratch()
    try:
        binary = build_harness(sc)
        active = replay_findings(chk, pid, binary, sc)
        d11 = any(f["id"] == "D11" and f["status"] == "known" and pid in f["properties"] for f in load_findings())
        gen = sc.path("gen.ndjson")
        write_ndjson(gen, [{"id": r.get("model_id", "replay"), "m": r["model"], "roots": [r["roots"]] if r.get("roots") else []}])
        ms, st, tr, validated, ntr = trace_models(chk, pid, binary, sc, gen, d11, "50", "720")
        chk.cov.update(states=st, transitions=tr, evaluations=chk.cov.get("real_builds", 0), distinct_nontrivial=len(ms))
        chk.sample({"replayed": path})
        rc = 1 if chk.violations else 0
        log("replay of %s: %s" % (path, "still violates" if rc else "no violation"))
        return rc
    finally:
        sc.cleanup()


def run(pid, tier):
    chk = Check(pid, tier, "model_checking")
    sc = Scratch()
    try:
        binary = build_harness(sc)
        active = replay_findings(chk, pid, binary, sc)
        d11 = "D11" in active or any(f["id"] == "D11" and f["status"] == "known" and pid in f["properties"] for f in load_findings())

        # ---- MC + RP over the bounded universe
        ALLSHAPES = "<<" + ",".join(str(i) for i in range(1, 49)) + ">>"
        # (free relations, shapes of the first one, shapes of the others)
        universes = [(2, ALLSHAPES, "<<1,3,4,5,6,9,11,13,22,27,36,39,40>>"), (3, "<<4,21,47>>", "<<4,21,22,42,43>>")] if tier == "quick" else \
                    [(2, ALLSHAPES, ALLSHAPES), (3, "<<1,2,4,6,8,9,11,12,13,14,16,17,22,25,26,27,28,30,31,34,35>>", "<<1,4,5,6,9,11,22,27,36,39,40,42,43>>")]
        states = trans = 0
        allmodels = []
        universes.append((0, "<<1>>", "<<1>>"))        # the public-type frame (PubInputs of WGraphMC)
        universes.append((-1, "<<1>>", "<<1>>"))       # the operand frame (OpInputs of WGraphMC)
        for nfree, menu, menu2 in universes:
            cfg = MC_CFG % {"devs": DEVS_CURRENT, "nfree": max(nfree, 2), "menu": menu, "menu2": menu2}
            if nfree == 0:
                cfg = cfg.replace("Inputs <- MCInputs", "Inputs <- PubInputs")
            if nfree == -1:
                cfg = cfg.replace("Inputs <- MCInputs", "Inputs <- OpInputs")
            res = run_tlc("WGraphMC", cfg, sc, cache=True, timeout=3000, defs="MenuSeqV == %s\nMenu2SeqV == %s" % (menu, menu2))
            if res.violated:
                raise Infra("design-level invariant(s) %s violated on the Impl layer of spec/WGraph.tla (universe NFree=%d): the "
                            "specification no longer describes code that satisfies the property modulo listed findings\n%s" % (res.violated, nfree, res.tail[-1500:]))
            states += res.distinct
            trans += res.generated
            models = collect(res.records)
            inp = sc.path("u%d.ndjson" % nfree)
            out = sc.path("u%d.obs.ndjson" % nfree)
            write_ndjson(inp, [{"id": md.id, "m": md.m, "roots": list(md.impl.values())} for md in models.values()])
            args = ["wg-replay", "-in", inp, "-out", out, "-seed", str(SEED), "-natural", "20" if tier == "quick" else "50", "-maxperm", "720" if nfree == 2 else "240" if nfree >= 0 else "120"]
            if pid == "C06":
                args += ["-perm", "-conc", "8"]
            run_harness(binary, args)
            for o in read_ndjson(out):
                models[o["id"]].obs = o
            for md in models.values():
                if md.obs is None:
                    raise Infra("no observation for model " + md.id)
                binding(chk, md)
                judge(chk, pid, md, d11)
                chk.add("real_builds", md.obs["runs"])
                chk.add("forced_orders_exhaustive" if md.obs["exhaustive"] else "forced_orders_sampled")
            allmodels += list(models.values())
            log("universe NFree=%d: %d models, %d distinct states, %d impl outcomes, TLC %.0fs%s" % (
                nfree, len(models), res.distinct, sum(len(m.impl) for m in models.values()), res.wall, " (cached)" if res.cached else ""))

        # ---- the construction API underneath the builder (C10): spec behaviours replayed on the real object
        if pid == "C10":
            api_automaton(chk, binary, sc, tier)

        # ---- TV: random larger models, natural orders logged, replayed through the Impl layer by TLC
        n = 90 if tier == "quick" else 600        # (each file of 100 recorded runs costs TLC about 80 s: 1,500 models made the thorough tier an hour long)
        gen = sc.path("gen.ndjson")
        run_harness(binary, ["wg-gen", "-out", gen, "-n", str(n), "-seed", str(SEED)])
        ms, st, tr, validated, ntr = trace_models(chk, pid, binary, sc, gen, d11, "30" if tier == "quick" else "60", "60" if tier == "quick" else "200")
        states += st
        trans += tr
        allmodels += ms

        for f in load_findings():
            if f["id"] in KNOWN_IDS and f["status"] == "known" and pid in f["properties"]:
                if chk.known.get(f["id"]):
                    log("KNOWN-FINDING: property=%s %s: %s" % (pid, f["id"], f["what"]))
                else:
                    log("note: listed finding %s no longer reproduces" % f["id"])
        chk.cov.update(states=states, transitions=trans,
                       evaluations=chk.cov.get("real_builds", 0),
                       distinct_nontrivial=len({json.dumps(m.m, sort_keys=True) for m in allmodels if len(m.g["edges"]) > 3}),
                       rule="models = bounded universe (frame + free relations over a shape menu) + seeded random models; distinct by abstract model, "
                            "non-trivial = graph has more than 3 edges; every model is built under all / sampled DFS root orders",
                       models=len(allmodels), exhaustive=False)
        for md in allmodels[:2] + allmodels[-2:]:
            chk.sample({"model": md.m, "ideal_reasons": md.ideal["reasons"], "impl_outcomes": sorted({k[0] for k in md.impl}),
                        "real_outcomes": [{"result": o["result"], "roots": o["roots"], "count": o["count"]} for o in md.obs["outcomes"][:3]]})
        if getattr(chk, "hook_void", False) and not chk.violations:
            raise Infra("verif hook self-check failed: the forced-order copy of the AssignWeights loop disagrees with the natural loop (and the natural runs alone gave no verdict)")
        chk.assumptions += ["the abstract model -> protobuf conversion of the harness mirrors the shape the DSL transformer produces",
                            "root orders of graphs with more than 6 non-terminal nodes are sampled, not enumerated"]
        return chk.finish()
    finally:
        sc.cleanup()
