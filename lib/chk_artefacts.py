"""C19 - Go, JS and Java parsers are generated from the one grammar.  Specification: spec/Artefacts.tla.

TV : the harness extracts, without running anything, the serialized ATNs (Go int32 / TS number literals, the Java 16-bit
     word string decoded), rule / literal / symbolic names, .interp and .tokens files of the three packages, the rule
     names / literals / modes / per-rule references declared in the two .g4 files, the same references read from the
     Go ATN in its serialized form, and the listener callbacks of the Go transformer; TLC checks ArtefactsAgree,
     VocabularyMatchesGrammar, RuleBodiesMatchATN, ListenerCallbacksExist on the recorded state.
RP : behavioural half for Go (a hand edit of the generated Go parser leaves the ATN untouched): TLC renders documents with
     every keyword the grammar admits as identifier in every identifier position; the Go parser must accept them and return
     the model written.  For JS / Java the behavioural claim rests on ATN equality (no runtime for them in the sandbox).
"""
import json

from vlib import *
import chk_dsl

CFG = """INIT Init
NEXT Next
CHECK_DEADLOCK FALSE
INVARIANTS %s
"""
INVS = ["ArtefactsAgree", "VocabularyMatchesGrammar", "RuleBodiesMatchATN", "ListenerCallbacksExist"]


def explain(recs, inv):
    """turns a violated invariant into a readable difference"""
    out = []
    if inv == "ArtefactsAgree":
        for a in ("lexer", "parser"):
            reps = [r for r in recs if r["kind"] == "replica" and r["artefact"] == a]
            ref = next(r for r in reps if r["lang"] == "go")
            for r in reps:
                for f in ("atn", "rules", "literal", "symbolic"):
                    if r[f] != ref[f]:
                        idx = next((i for i in range(min(len(r[f]), len(ref[f]))) if r[f][i] != ref[f][i]), min(len(r[f]), len(ref[f])))
                        out.append("%s %s of %s differs from go at index %d (%s vs %s; lengths %d / %d)" % (a, f, r["lang"], idx, r[f][idx:idx + 1], ref[f][idx:idx + 1], len(r[f]), len(ref[f])))
            toks = [r for r in recs if r["kind"] == "tokens" and r["artefact"] == a]
            for t in toks:
                if t["lines"] != toks[0]["lines"]:
                    out.append("%s .tokens of %s differs from %s" % (a, t["lang"], toks[0]["lang"]))
    elif inv == "VocabularyMatchesGrammar":
        for a in ("lexer", "parser"):
            g = next(r for r in recs if r["kind"] == "grammar" and r["artefact"] == a)
            v = next(r for r in recs if r["kind"] == "replica" and r["artefact"] == a and r["lang"] == "go")
            if v["rules"] != g["rules"]:
                out.append("%s rule names differ from the .g4: generated-only %s grammar-only %s (or order)" % (a, sorted(set(v["rules"]) - set(g["rules"])), sorted(set(g["rules"]) - set(v["rules"]))))
            if a == "lexer":
                lit = {v["symbolic"][i]: v["literal"][i] for i in range(len(v["literal"])) if v["literal"][i]}
                for t, l in g["literals"].items():
                    if lit.get(t) != l:
                        out.append("literal of token %s: grammar %r, vocabulary %r" % (t, l, lit.get(t)))
    elif inv == "RuleBodiesMatchATN":
        ar = next(r for r in recs if r["kind"] == "atnrefs")["refs"]
        g = next(r for r in recs if r["kind"] == "grammar" and r["artefact"] == "parser")["refs"]
        for k in sorted(set(ar) | set(g)):
            if ar.get(k) != g.get(k):
                out.append("rule %s: ATN-only references %s, grammar-only %s" % (k, sorted(set(ar.get(k, [])) - set(g.get(k, []))), sorted(set(g.get(k, [])) - set(ar.get(k, [])))))
    else:
        rules = next(r for r in recs if r["kind"] == "replica" and r["artefact"] == "parser" and r["lang"] == "go")["rules"]
        for n in next(r for r in recs if r["kind"] == "callbacks")["names"]:
            base = n[5:] if n.startswith("Enter") else n[4:]
            if base[:1].lower() + base[1:] not in rules:
                out.append("listener callback %s names no grammar rule" % n)
    return out


def run(pid, tier):
    chk = Check(pid, tier, "other")
    sc = Scratch()
    try:
        binary = build_harness(sc)
        af = sc.path("artefacts.ndjson")
        try:
            run_harness(binary, ["artefacts", "-repo", REPO, "-out", af])
        except Infra as e:
            # an artefact that cannot even be read (ATN not well-formed, Java string not decodable) is an inconsistency of that package
            chk.violation("a generated artefact cannot be read: %s" % str(e)[-400:], {"error": str(e)[-2000:]})
            chk.cov.update(explanation="extraction failed", evaluations=1, distinct_nontrivial=2)
            return chk.finish()
        recs = read_ndjson(af)
        states = 0
        for inv in INVS:
            res = run_tlc("Artefacts", CFG % inv, sc, data_files={"artefacts.ndjson": af}, timeout=600, xss="256m")
            states += res.distinct
            why = explain(recs, inv)
            if res.violated:
                chk.violation("%s violated: %s" % (inv, "; ".join(why[:4]) or "(see replay)"), {"invariant": inv, "differences": why})
            elif why:
                raise Infra("the driver sees differences (%s) that TLC's %s accepts" % (why[:2], inv))
        # behavioural half for Go: keywords as identifiers in every position
        jobs = []
        for k in range(6):
            for role in range(30):
                for sty in (chk_dsl.BASE_STYLE, dict(chk_dsl.BASE_STYLE, ows=" ", ws="\t")):
                    jobs.append({"id": "K%d" % len(jobs), "doc": 0, "kw": [k, role], "viol": 0, "vsite": 0, "style": sty, "ov": []})
        jf = sc.path("layout_jobs.ndjson")
        write_ndjson(jf, jobs)
        lay = run_tlc("DslLayoutMC", chk_dsl.LAYOUT_CFG, sc, data_files={"layout_jobs.ndjson": jf}, defs=chk_dsl.LAYOUT_DEFS, timeout=1200, cache=True)
        lrecs = {r["id"]: r for r in lay.records}
        if len(lrecs) != len(jobs):
            raise Infra("TLC rendered %d of %d keyword documents\n%s" % (len(lrecs), len(jobs), lay.tail[-1500:]))
        inp, out = sc.path("kw.in.ndjson"), sc.path("kw.out.ndjson")
        write_ndjson(inp, [{"id": r["id"], "text": r["text"], "modular": r["modular"]} for r in lrecs.values()])
        run_harness(binary, ["dsl-parse", "-in", inp, "-out", out])
        for o in read_ndjson(out):
            r = lrecs[o["id"]]
            p = o["parse"]
            if not p["ok"]:
                chk.violation("the Go parser rejects a text the grammar (and the automaton shared with JS / Java) accepts: %s" % [(e["line"], e["col"], e["msg"][:70]) for e in p.get("errs") or []][:2],
                              {"text": r["text"], "observed": p})
            elif chk_dsl.clean_model(p["m"]) != chk_dsl.expected_model(r["m"]):
                chk.violation("the Go parser builds a different tree than the grammar prescribes for a keyword-named identifier", {"text": r["text"], "parsed": chk_dsl.clean_model(p["m"]), "expected": chk_dsl.expected_model(r["m"])})
        lx = next(r for r in recs if r["kind"] == "replica" and r["artefact"] == "lexer" and r["lang"] == "go")
        px = next(r for r in recs if r["kind"] == "replica" and r["artefact"] == "parser" and r["lang"] == "go")
        chk.cov.update(explanation="TLC compared the recorded configuration state of the three packages: lexer ATN (%d ints), parser ATN (%d ints), %d + %d rule names, vocabularies, 6 .interp and 6 .tokens files, "
                                   "the declarations of the two .g4 files, per-rule reference sets of %d parser rules read from the Go ATN, %d listener callbacks; behavioural half for Go: %d rendered documents with "
                                   "each of 6 keywords in each identifier position were parsed by the Go parser and compared with the model written" % (
                                       len(lx["atn"]), len(px["atn"]), len(lx["rules"]), len(px["rules"]), len(px["rules"]), len(next(r for r in recs if r["kind"] == "callbacks")["names"]), len(jobs)),
                       evaluations=len(INVS) + len(jobs), distinct_nontrivial=len(INVS) + len({r["text"] for r in lrecs.values()}), states=states + lay.distinct,
                       samples=[{"invariants": INVS}, {"keyword_document": lrecs["K40"]["text"]}])
        chk.assumptions += ["JS and Java runtimes are not installed: for them 'accept the same texts' rests on equality of the serialized automata",
                            "no ANTLR tool offline: grammar -> ATN is compared at the level of rule / token vocabularies and per-rule reference sets, not every conceivable body edit"]
        return chk.finish()
    finally:
        sc.cleanup()


def replay(pid, path):
    return run(pid, "quick")
