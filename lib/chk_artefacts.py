"""C19 - Go, JS and Java parsers are generated from the one grammar.  Specification: spec/Artefacts.tla.

TV : the harness extracts, without running anything, the serialized ATNs (Go int32 / TS number literals, the Java 16-bit
     word string decoded), rule / literal / symbolic names, .interp and .tokens files of the three packages, the rule
     names / literals / modes / per-rule references declared in the two .g4 files, the same references read from the
     Go ATN in its serialized form, and the listener callbacks of the Go transformer; TLC checks ArtefactsAgree,
     VocabularyMatchesGrammar, RuleBodiesMatchATN, ListenerCallbacksExist on the recorded state.
RP : behavioural half for Go (a hand edit of the generated Go parser leaves the ATN untouched): TLC renders documents with
     every keyword the grammar admits as identifier in every identifier position; the Go parser must accept them and return
     the model written.  For JS / Java the behavioural claim rests on ATN equality (no runtime for them in the sandbox).
"""
import json
import os

from vlib import *
import chk_dsl

CFG = """INIT Init
NEXT Next
CHECK_DEADLOCK FALSE
INVARIANTS %s
"""
INVS = ["ArtefactsAgree", "VocabularyMatchesGrammar", "RuleBodiesMatchATN", "ListenerCallbacksExist",
        "ParserSkeletonsAgree", "ContextsCarryTheirRule", "GeneratedListenersMatchRules", "ConstantsNumberTheVocabulary", "LexerGrammarAsTranscribed"]

# ---- the generated recursive-descent code, read as text: one "skeleton" per package
GEN = {"go": ("pkg/go/gen/openfga_parser.go", ["pkg/go/gen/openfgaparser_listener.go", "pkg/go/gen/openfgaparser_base_listener.go"]),
       "js": ("pkg/js/gen/OpenFGAParser.ts", ["pkg/js/gen/OpenFGAParserListener.ts"]),
       "java": ("pkg/java/src/main/gen/dev/openfga/language/antlr/OpenFGAParser.java",
                ["pkg/java/src/main/gen/dev/openfga/language/antlr/OpenFGAParserListener.java", "pkg/java/src/main/gen/dev/openfga/language/antlr/OpenFGAParserBaseListener.java"])}
EVENTS = {
    "go": [("enter", r"p\.EnterRule\(localctx, (\d+), OpenFGAParserRULE_(\w+)\)"), ("exit", r"p\.ExitRule\(\)"), ("state", r"p\.SetState\((\d+)\)"),
           ("match", r"p\.Match\(OpenFGAParser(\w+)\)"), ("alt", r"p\.EnterOuterAlt\(localctx, (\d+)\)"), ("predict", r"AdaptivePredict\(p\.BaseParser, p\.GetTokenStream\(\), (\d+),"), ("call", r"p\.([A-Z]\w*)\(\)")],
    "js": [("enter", r"this\.enterRule\(localctx, (\d+), OpenFGAParser\.RULE_(\w+)\)"), ("exit", r"this\.exitRule\(\)"), ("state", r"this\.state = (\d+);"),
           ("match", r"this\.match\(OpenFGAParser\.(\w+)\)"), ("alt", r"this\.enterOuterAlt\(localctx, (\d+)\)"), ("predict", r"adaptivePredict\(this\._input, (\d+), this\._ctx\)"), ("call", r"this\.(\w+)\(\)")],
    "java": [("enter", r"enterRule\(_localctx, (\d+), RULE_(\w+)\)"), ("exit", r"exitRule\(\)"), ("state", r"setState\((\d+)\)"),
             ("match", r"match\((\w+)\)"), ("alt", r"enterOuterAlt\(_localctx, (\d+)\)"), ("predict", r"adaptivePredict\(_input,(\d+),_ctx\)"), ("call", r"(?m)(?:^\s*|\w = )(\w+)\(\);")],
}
CTX = {"go": r"func (?:NewEmpty|InitEmpty|New)(\w+)Context\([^)]*\)[^{]*\{(?:(?!\nfunc ).)*?RuleIndex = OpenFGAParserRULE_(\w+)",
       "js": r"class (\w+)Context extends ParserRuleContext \{(?:(?!\nexport class ).)*?return OpenFGAParser\.RULE_(\w+);",
       "java": r"class (\w+)Context extends ParserRuleContext \{(?:(?!\n\tpublic static class ).)*?getRuleIndex\(\) \{ return RULE_(\w+); \}"}
DISPATCH = {"go": r"listenerT\.((?:Enter|Exit)\w+)\(s\)", "js": r"listener\.((?:enter|exit)\w+)\(this\)", "java": r"\(\(OpenFGAParserListener\)listener\)\.((?:enter|exit)\w+)\(this\)"}
LISTENER = {"go": r"(?m)^\s*(?:func \(s \*BaseOpenFGAParserListener\) )?((?:Enter|Exit)[A-Z]\w*)\(c(?:tx)? \*\w+Context\)", "js": r"(?m)^\s*((?:enter|exit)[A-Z]\w*)\?: \(ctx: \w+Context\) => void;",
            "java": r"(?m)^\s*(?:@Override public )?void ((?:enter|exit)[A-Z]\w*)\(OpenFGAParser\.\w+Context ctx\)"}


def skeletons(repo, rules):
    """one record per package: per rule the sequence of parser actions of its method (state numbers, matched tokens, alternatives,
    prediction decisions, calls of other rules; token-set masks are left out: the JS target splits them into 32-bit words), the rule every context class says it belongs to, the listener
    methods the contexts dispatch to and the ones the listener files declare"""
    import re
    out = []
    for lang, (pf, lfs) in GEN.items():
        text = open(os.path.join(repo, pf), errors="replace").read()
        pat = re.compile("|".join("(?P<%s>%s)" % (k, v.replace("(?m)", "")) for k, v in EVENTS[lang]), re.M)
        per, cur = {}, None
        for m in pat.finditer(text):
            kind = m.lastgroup
            g = [x for x in m.groups()[list(pat.groupindex.values()).index(pat.groupindex[kind]) + 1:] if x is not None] if False else None
            grp = m.group(kind)
            inner = re.match(EVENTS[lang][[k for k, _ in EVENTS[lang]].index(kind)][1].replace("(?m)", ""), grp, re.M)
            args = list(inner.groups()) if inner else []
            if kind == "call" and args and args[0] == "exitRule":       # Java: `exitRule();` stands alone on its line like a rule call
                kind = "exit"
            if kind == "enter":
                cur = args[1]
                per.setdefault(cur, []).append("enter %s %s" % (args[0], args[1]))
            elif cur is None:
                continue
            elif kind == "exit":
                per[cur].append("exit")
                cur = None
            elif kind == "call":
                name = args[0][:1].lower() + args[0][1:]
                if name in rules:
                    per[cur].append("call " + name)
            else:
                per[cur].append(kind + " " + " ".join(args))
        ctxs = sorted({(a, b) for a, b in re.findall(CTX[lang], text, re.S)})
        disp = sorted(set(re.findall(DISPATCH[lang], text)))
        decl = []
        for lf in lfs:
            decl.append(sorted(set(re.findall(LISTENER[lang], open(os.path.join(repo, lf), errors="replace").read()))))
        out.append({"kind": "skeleton", "lang": lang, "rules": per, "ctxrule": [list(x) for x in ctxs], "dispatch": disp, "listeners": decl})
    return out



def explain(recs, inv):
    """turns a violated invariant into a readable difference"""
    out = []
    if inv == "ArtefactsAgree":
        for a in ("lexer", "parser"):
            reps = [r for r in recs if r["kind"] == "replica" and r["artefact"] == a]
            ref = next(r for r in reps if r["lang"] == "go")
            for r in reps:
                for f in ("atn", "rules", "literal", "symbolic"):
                    if r[f] != ref[f]:
                        idx = next((i for i in range(min(len(r[f]), len(ref[f]))) if r[f][i] != ref[f][i]), min(len(r[f]), len(ref[f])))
                        out.append("%s %s of %s differs from go at index %d (%s vs %s; lengths %d / %d)" % (a, f, r["lang"], idx, r[f][idx:idx + 1], ref[f][idx:idx + 1], len(r[f]), len(ref[f])))
            toks = [r for r in recs if r["kind"] == "tokens" and r["artefact"] == a]
            for t in toks:
                if t["lines"] != toks[0]["lines"]:
                    out.append("%s .tokens of %s differs from %s" % (a, t["lang"], toks[0]["lang"]))
    elif inv == "ConstantsNumberTheVocabulary":
        for a in ("lexer", "parser"):
            v = next(r for r in recs if r["kind"] == "replica" and r["artefact"] == a and r["lang"] == "go")
            want = {(n, i) for i, n in enumerate(v["symbolic"]) if n}
            if a == "parser":
                want |= {("RULE_" + n, i) for i, n in enumerate(v["rules"])}
            else:
                g = next(r for r in recs if r["kind"] == "grammar" and r["artefact"] == "lexer")
                want |= {(n, i) for i, n in enumerate(g["modes"]) if i > 0}
            for c in (r for r in recs if r["kind"] == "constants" and r["artefact"] == a):
                got = {(p[0], p[1]) for p in c["pairs"]}
                if got != want:
                    out.append("%s %s: exported constants differ from the vocabulary numbering: constants-only %s vocabulary-only %s" % (c["lang"], a, sorted(got - want)[:6], sorted(want - got)[:6]))
    elif inv == "LexerGrammarAsTranscribed":
        import re
        got = next(r for r in recs if r["kind"] == "lexerrules")["list"]
        spec = open(os.path.join(VERIF, "spec", "LexerRules.tla")).read()
        want = [(m.group(1), json.loads(m.group(2))) for m in re.finditer(r'<<"([A-Z_]+)", ("(?:[^"\\]|\\.)*")>>', spec)]
        for i in range(max(len(got), len(want))):
            g = tuple(got[i]) if i < len(got) else None
            w = want[i] if i < len(want) else None
            if g != w:
                out.append("lexer rule %d: the grammar has %s, spec/LexerRules.tla transcribes %s" % (i + 1, g, w))
                break
    elif inv == "VocabularyMatchesGrammar":
        for a in ("lexer", "parser"):
            g = next(r for r in recs if r["kind"] == "grammar" and r["artefact"] == a)
            v = next(r for r in recs if r["kind"] == "replica" and r["artefact"] == a and r["lang"] == "go")
            if v["rules"] != g["rules"]:
                out.append("%s rule names differ from the .g4: generated-only %s grammar-only %s (or order)" % (a, sorted(set(v["rules"]) - set(g["rules"])), sorted(set(g["rules"]) - set(v["rules"]))))
            if a == "lexer":
                lit = {v["symbolic"][i]: v["literal"][i] for i in range(len(v["literal"])) if v["literal"][i]}
                for t, l in g["literals"].items():
                    if lit.get(t) != l:
                        out.append("literal of token %s: grammar %r, vocabulary %r" % (t, l, lit.get(t)))
    elif inv == "RuleBodiesMatchATN":
        ar = next(r for r in recs if r["kind"] == "atnrefs")["refs"]
        g = next(r for r in recs if r["kind"] == "grammar" and r["artefact"] == "parser")["refs"]
        for k in sorted(set(ar) | set(g)):
            if ar.get(k) != g.get(k):
                out.append("rule %s: ATN-only references %s, grammar-only %s" % (k, sorted(set(ar.get(k, [])) - set(g.get(k, []))), sorted(set(g.get(k, [])) - set(ar.get(k, [])))))
    elif inv == "ParserSkeletonsAgree":
        sk = {r["lang"]: r["rules"] for r in recs if r["kind"] == "skeleton"}
        for lang in ("js", "java"):
            for rule in sorted(set(sk["go"]) | set(sk[lang])):
                a, b = sk["go"].get(rule), sk[lang].get(rule)
                if a != b:
                    i = next((i for i in range(min(len(a or []), len(b or []))) if a[i] != b[i]), min(len(a or []), len(b or [])))
                    out.append("generated code of rule %s: go and %s part at action %d (%s vs %s)" % (rule, lang, i, (a or [])[i:i + 1], (b or [])[i:i + 1]))
        rules = next(r for r in recs if r["kind"] == "replica" and r["artefact"] == "parser" and r["lang"] == "go")["rules"]
        for lang, per in sk.items():
            if sorted(per) != sorted(rules):
                out.append("%s: rule methods %s differ from the rules" % (lang, sorted(set(per) ^ set(rules))))
    elif inv == "ContextsCarryTheirRule":
        rules = next(r for r in recs if r["kind"] == "replica" and r["artefact"] == "parser" and r["lang"] == "go")["rules"]
        for r in recs:
            if r["kind"] == "skeleton":
                for c, rule in r["ctxrule"]:
                    if c[:1].lower() + c[1:] != rule:
                        out.append("%s: context class %sContext carries rule index of %s" % (r["lang"], c, rule))
                if sorted({x[1] for x in r["ctxrule"]}) != sorted(rules):
                    out.append("%s: rules without a context class of their own: %s" % (r["lang"], sorted(set(rules) - {x[1] for x in r["ctxrule"]})))
    elif inv == "GeneratedListenersMatchRules":
        rules = next(r for r in recs if r["kind"] == "replica" and r["artefact"] == "parser" and r["lang"] == "go")["rules"]
        for r in recs:
            if r["kind"] == "skeleton":
                want = sorted(p + x[:1].upper() + x[1:] for x in rules for p in (("Enter", "Exit") if r["lang"] == "go" else ("enter", "exit")))
                for what, names in [("dispatch", r["dispatch"])] + [("listener file %d" % i, l) for i, l in enumerate(r["listeners"])]:
                    if sorted(names) != want:
                        out.append("%s %s: only there %s, missing %s" % (r["lang"], what, sorted(set(names) - set(want)), sorted(set(want) - set(names))))
    else:
        rules = next(r for r in recs if r["kind"] == "replica" and r["artefact"] == "parser" and r["lang"] == "go")["rules"]
        for n in next(r for r in recs if r["kind"] == "callbacks")["names"]:
            base = n[5:] if n.startswith("Enter") else n[4:]
            if base[:1].lower() + base[1:] not in rules:
                out.append("listener callback %s names no grammar rule" % n)
    return out


def run(pid, tier):
    chk = Check(pid, tier, "other")
    sc = Scratch()
    try:
        binary = build_harness(sc)
        af = sc.path("artefacts.ndjson")
        try:
            run_harness(binary, ["artefacts", "-repo", REPO, "-out", af])
        except Infra as e:
            # an artefact that cannot even be read (ATN not well-formed, Java string not decodable) is an inconsistency of that package
            chk.violation("a generated artefact cannot be read: %s" % str(e)[-400:], {"error": str(e)[-2000:]})
            chk.cov.update(explanation="extraction failed", evaluations=1, distinct_nontrivial=2)
            return chk.finish()
        recs = read_ndjson(af)
        prules = next(r for r in recs if r["kind"] == "replica" and r["artefact"] == "parser" and r["lang"] == "go")["rules"]
        sk = skeletons(REPO, prules)
        for k in sk:
            if len(k["rules"]) < 5 or len(k["ctxrule"]) < 5 or not k["dispatch"] or not all(k["listeners"]):
                raise Infra("the text patterns for the generated %s parser match almost nothing (rules %d, contexts %d): generator output format changed?" % (k["lang"], len(k["rules"]), len(k["ctxrule"])))
        recs += sk
        write_ndjson(af, recs)
        states = 0
        for inv in INVS:
            res = run_tlc("Artefacts", CFG % inv, sc, data_files={"artefacts.ndjson": af}, timeout=600, xss="256m")
            states += res.distinct
            why = explain(recs, inv)
            if res.violated:
                chk.violation("%s violated: %s" % (inv, "; ".join(why[:4]) or "(see replay)"), {"invariant": inv, "differences": why})
            elif why:
                raise Infra("the driver sees differences (%s) that TLC's %s accepts" % (why[:2], inv))
        # behavioural half for Go: keywords as identifiers in every position
        jobs = []
        for k in range(6):
            for role in range(30):
                for sty in (chk_dsl.BASE_STYLE, dict(chk_dsl.BASE_STYLE, ows=" ", ws="\t")):
                    jobs.append({"id": "K%d" % len(jobs), "doc": 0, "kw": [k, role], "viol": 0, "vsite": 0, "style": sty, "ov": []})
        jf = sc.path("layout_jobs.ndjson")
        write_ndjson(jf, jobs)
        lay = run_tlc("DslLayoutMC", chk_dsl.LAYOUT_CFG, sc, data_files={"layout_jobs.ndjson": jf}, defs=chk_dsl.LAYOUT_DEFS, timeout=1200, cache=True)
        lrecs = {r["id"]: r for r in lay.records}
        if len(lrecs) != len(jobs):
            raise Infra("TLC rendered %d of %d keyword documents\n%s" % (len(lrecs), len(jobs), lay.tail[-1500:]))
        inp, out = sc.path("kw.in.ndjson"), sc.path("kw.out.ndjson")
        write_ndjson(inp, [{"id": r["id"], "text": r["text"], "modular": r["modular"]} for r in lrecs.values()])
        run_harness(binary, ["dsl-parse", "-in", inp, "-out", out])
        for o in read_ndjson(out):
            r = lrecs[o["id"]]
            p = o["parse"]
            if not p["ok"]:
                chk.violation("the Go parser rejects a text the grammar (and the automaton shared with JS / Java) accepts: %s" % [(e["line"], e["col"], e["msg"][:70]) for e in p.get("errs") or []][:2],
                              {"text": r["text"], "observed": p})
            elif chk_dsl.clean_model(p["m"]) != chk_dsl.expected_model(r["m"]):
                chk.violation("the Go parser builds a different tree than the grammar prescribes for a keyword-named identifier", {"text": r["text"], "parsed": chk_dsl.clean_model(p["m"]), "expected": chk_dsl.expected_model(r["m"])})
        # ... and the lexer: every token the Go lexer produces for the keyword documents, the DSL fixtures of the repository and a corpus
        # of CEL bodies (string forms, escapes, numbers, comments, texts the lexer cannot finish) is the token the rules of OpenFGALexer.g4
        # - transcribed in spec/Lexer.tla, the transcription compared with the .g4 by LexerGrammarAsTranscribed - prescribe at that step
        chk_dsl.lexer_validate(chk, binary, sc, chk_dsl.lexer_corpus() + [{"id": r["id"], "text": r["text"]} for r in lrecs.values()], "fixtures, CEL corpus, keyword documents", verdict=True)
        lx = next(r for r in recs if r["kind"] == "replica" and r["artefact"] == "lexer" and r["lang"] == "go")
        px = next(r for r in recs if r["kind"] == "replica" and r["artefact"] == "parser" and r["lang"] == "go")
        chk.cov.update(explanation="TLC compared the recorded configuration state of the three packages: lexer ATN (%d ints), parser ATN (%d ints), %d + %d rule names, vocabularies, 6 .interp and 6 .tokens files, "
                                   "the declarations of the two .g4 files, per-rule reference sets of %d parser rules read from the Go ATN, %d listener callbacks; behavioural half for Go: %d rendered documents with "
                                   "each of 6 keywords in each identifier position were parsed by the Go parser and compared with the model written; %d tokens of the Go lexer validated against the lexer automaton of spec/Lexer.tla" % (
                                       len(lx["atn"]), len(px["atn"]), len(lx["rules"]), len(px["rules"]), len(px["rules"]), len(next(r for r in recs if r["kind"] == "callbacks")["names"]), len(jobs), chk.cov.get("lexer_tokens_validated", 0)),
                       evaluations=len(INVS) + len(jobs), distinct_nontrivial=len(INVS) + len({r["text"] for r in lrecs.values()}), states=states + lay.distinct,
                       samples=[{"invariants": INVS}, {"keyword_document": lrecs["K40"]["text"]}])
        chk.assumptions += ["JS and Java runtimes are not installed: for them 'accept the same texts' rests on equality of the serialized automata",
                            "no ANTLR tool offline: grammar -> ATN is compared at the level of rule / token vocabularies and per-rule reference sets for the parser; for the lexer through the text of every rule (LexerGrammarAsTranscribed) and the behaviour of the Go lexer on recorded documents (spec/Lexer.tla)"]
        return chk.finish()
    finally:
        sc.cleanup()


def replay(pid, path):
    return run(pid, "quick")
