"""C17 - plain authorization-model graph.  Specification: spec/PlainGraph.tla.

MC : TLC builds PG(M) for every model (the shape-menu universe of the weighted graph + seeded random models), walks the
     API automaton Build ; Reverse^k and checks ReverseInvolution, PathDuality, ReverseFlipsEveryLine,
     DrawnFromUsersToRelations in every state; every state prints what the real object must show.
RP : the harness builds the real graph, applies the same reversals and reports nodes (with gonum ids), lines, all
     path queries between public labels, label lookups, cycle flags and DOT after every step; DOT over repeated
     builds and g.Reversed().Reversed().GetDOT() == g.GetDOT().
"""
import json

from vlib import *
import chk_wgraph

CFG = """SPECIFICATION Spec
CONSTANTS
  ModelAt <- GivenAt
  NumModels <- GivenNum
  MaxCalls = %(calls)d
CHECK_DEADLOCK FALSE
INVARIANTS ReverseInvolution PathDuality ReverseFlipsEveryLine DrawnFromUsersToRelations PureCycleIsACycle
"""


def bag(lines):
    out = {}
    for l in lines:
        k = (l["from"], l["to"], l["kind"], l["ts"])
        out[k] = out.get(k, 0) + 1
    return out


def spec_bag(linebag):
    return {(l[0]["from"], l[0]["to"], l[0]["kind"], l[0]["ts"]): l[1] for l in linebag}


def judge(chk, mid, m, snaps, obs):
    rep = {"model_id": mid, "model": m}
    if obs.get("panic"):
        chk.violation("plain graph API panicked: %s" % obs["panic"], rep)
        return
    if obs.get("builderr"):
        chk.violation("NewAuthorizationModelGraph failed: %s" % obs["builderr"], rep)
        return
    for st in obs["states"]:
        k = st["calls"]
        if st.get("err"):
            chk.violation("Reversed() failed: %s" % st["err"], rep)
            return
        sp = snaps.get(k)
        if sp is None:
            raise Infra("no specification state after %d reversals for %s" % (k, mid))
        r = dict(rep, reversals=k)
        real_nodes = [(n["nid"], n["id"], n["nt"], n["label"] if n["nt"] == "op" else n["id"]) for n in st["nodes"]]
        spec_nodes = [(n["nid"], n["id"], n["nt"], n["label"] if n["nt"] == "op" else n["id"]) for n in sp["nodes"]]
        if sorted((x[1], x[2], x[3]) for x in real_nodes) != sorted((x[1], x[2], x[3]) for x in spec_nodes):
            # operator nodes are named by id: compare modulo ids first
            def anon(ns):
                return sorted((x[1] if x[2] != "op" else "op", x[2], x[3]) for x in ns)
            if anon(real_nodes) != anon(spec_nodes):
                chk.violation("after %d reversal(s): nodes differ from what the rewrite dictates: real-only %s spec-only %s" % (
                    k, sorted(set(anon(real_nodes)) - set(anon(spec_nodes)))[:4], sorted(set(anon(spec_nodes)) - set(anon(real_nodes)))[:4]), r)
                return
            chk.drift.append({"model": mid, "note": "node ids issued in a different order than the specification predicts"})
            return
        if bag(st["lines"]) != spec_bag(sp["lines"]):
            rb, sb = bag(st["lines"]), spec_bag(sp["lines"])
            diff = [(x, rb.get(x, 0), sb.get(x, 0)) for x in set(rb) | set(sb) if rb.get(x, 0) != sb.get(x, 0)]
            chk.violation("after %d reversal(s): typed edges differ (edge, real count, expected count): %s" % (k, diff[:4]), dict(r, diff=[list(map(str, d)) for d in diff[:10]]))
            return
        if st["dir"] != sp["dir"]:
            chk.violation("after %d reversal(s): drawing direction %s, expected %s" % (k, st["dir"], sp["dir"]), r)
            return
        if st["patherrs"]:
            chk.violation("path query between existing labels failed: %s" % st["patherrs"][:2], r)
            return
        rp, spp = {tuple(p) for p in st["paths"]}, {tuple(p) for p in sp["paths"]}
        if rp != spp:
            chk.violation("after %d reversal(s): PathExists differs from reachability: real-only %s spec-only %s" % (k, sorted(rp - spp)[:4], sorted(spp - rp)[:4]), r)
            return
        if sorted(st["found"]) != sorted(sp["labels"]):
            chk.violation("label lookup does not find exactly the type / relation / wildcard nodes: missing %s" % sorted(set(sp["labels"]) - set(st["found"]))[:5], r)
            return
        wrongly_found = [p for p in ["nosuchtype", "doc#nosuchrel", "union", "intersection", "exclusion", "user:*:*", ""] if p not in st["absent"] and p not in sp["labels"]]
        if wrongly_found:
            chk.violation("label lookup finds labels that are no type / relation / wildcard node: %s" % wrongly_found, r)
            return
        if sp["purecycle"] and not st["compile"]:
            chk.violation("two or more relations form a cycle of pure computed usersets but no compile-time cycle is reported", r)
            return
        if sp["acyclic"] and (st["compile"] or st["runtime"]):
            chk.violation("acyclic model reports a cycle (compile-time %s, runtime %s)" % (st["compile"], st["runtime"]), r)
            return
    # path duality on the real objects: paths(g) = transposed paths(reversed g)
    if len(obs["states"]) >= 2:
        a = {tuple(p) for p in obs["states"][0]["paths"]}
        b = {(p[1], p[0]) for p in obs["states"][1]["paths"]}
        if a != b:
            chk.violation("PathExists(a, b) on the graph differs from PathExists(b, a) on the reversed graph: %s" % sorted(a ^ b)[:4], rep)
    if not obs["dot_stable"]:
        chk.violation("DOT differs between builds of the same model (%d builds)" % obs["dot_builds"], rep)
    elif not all(obs["rr_dot_equal"]):
        chk.violation("g.Reversed().Reversed().GetDOT() differs from g.GetDOT() in %d of %d repetitions" % (obs["rr_dot_equal"].count(False), len(obs["rr_dot_equal"])), rep)
    elif obs.get("render_then_reverse_differs"):
        chk.violation("g.Reversed().GetDOT() depends on whether g.GetDOT() was called before the reversal%s" % (" (it returns g's own text)" if obs.get("reversed_is_own_text") else ""), rep)
    elif obs["reversed_dots"] > 1:
        chk.violation("g.Reversed().GetDOT() takes %d different values over repeated reversals of identical graphs" % obs["reversed_dots"], rep)


def run_models(chk, binary, sc, models, calls, reps, tag):
    mf = sc.path("pg_models.ndjson")
    write_ndjson(mf, models)
    res = run_tlc("PlainGraphMC", CFG % {"calls": calls}, sc, data_files={"pg_models.ndjson": mf}, timeout=3000)
    if res.violated:
        raise Infra("design-level invariant(s) %s violated in spec/PlainGraph.tla\n%s" % (res.violated, res.tail[-1500:]))
    snaps = {}
    for r in res.records:
        if r["rec"] == "state":
            snaps.setdefault(r["id"], {})[len(r["calls"])] = r
    inp, out = sc.path(tag + ".in.ndjson"), sc.path(tag + ".out.ndjson")
    # every model is built twice: shaped as the DSL transformer shapes it, and as API clients write it (metadata entries
    # only for directly assignable relations) - the graph is the same
    both = models + [{"id": m["id"], "m": dict(m["m"], api_style=True)} for m in models]
    write_ndjson(inp, both)
    run_harness(binary, ["pg-replay", "-in", inp, "-out", out, "-calls", str(calls), "-reps", str(reps)])
    n = 0
    for m, o in zip(both, read_ndjson(out)):
        judge(chk, m["id"], m["m"], snaps.get(m["id"], {}), o)
        n += len(o["states"])
        chk.add("path_queries", sum(len(s["nodes"]) ** 2 for s in o["states"] if s.get("nodes")))
    chk.add("states_compared", n)
    return res


def computed_families(tier):
    """Every way to define k relations of one type as a direct assignment or a computed userset of one of the k (itself included):
    all cycle shapes of pure computed usersets with lead-in relations sorted before, between and after the cycle; once with plain
    names, once with names that differ only in letter case (orders that ignore case leave them to map iteration)."""
    import itertools
    out = []
    this = {"k": "this"}
    user = {"t": "user", "kind": "type", "rel": "", "cond": ""}
    for tag, names in (("cc", ["a", "b", "c", "d"]), ("cs", ["REL", "Rel", "rel"] if tier == "quick" else ["REL", "Rel", "rEL", "rel"])):
        for choice in itertools.product(range(len(names) + 1), repeat=len(names)):
            rels = []
            for n, c in zip(names, choice):
                rels.append({"name": n, "rw": this if c == 0 else {"k": "cu", "rel": names[c - 1]}, "restr": [user] if c == 0 else []})
            out.append({"id": tag + "".join(map(str, choice)), "m": {"types": [{"name": "doc", "rels": rels}, {"name": "user", "rels": []}]}})
    return out


def single_operand_families():
    """Operators with exactly one operand (only JSON / protobuf can say that): every operator node is drawn, also when it has one child -
    relations defined as union / intersection of one direct assignment, computed userset, tuple-to-userset or of another one-operand
    operator, and two relations that refer to each other through one-operand unions (a cycle, but not one of pure computed usersets)."""
    out = []
    this = {"k": "this"}
    user = {"t": "user", "kind": "type", "rel": "", "cond": ""}
    par = {"t": "doc", "kind": "type", "rel": "", "cond": ""}
    leaves = [("t", this), ("c", {"k": "cu", "rel": "a"}), ("u", {"k": "ttu", "rel": "a", "ts": "p"})]
    k = 0
    for op1 in ("union", "inter"):
        for ln, leaf in leaves:
            for op2 in (None, "union", "inter"):
                inner = {"k": op1, "ch": [leaf]}
                rw = inner if op2 is None else {"k": op2, "ch": [inner]}
                rels = [{"name": "a", "rw": this, "restr": [user]}, {"name": "p", "rw": this, "restr": [par]},
                        {"name": "x", "rw": rw, "restr": [user] if ln == "t" else []},
                        {"name": "y", "rw": {"k": "union", "ch": [{"k": "cu", "rel": "x"}, {"k": op1, "ch": [{"k": "cu", "rel": "a"}]}]}, "restr": []}]
                out.append({"id": "so%d" % k, "m": {"types": [{"name": "doc", "rels": rels}, {"name": "user", "rels": []}]}})
                k += 1
        rels = [{"name": "x", "rw": {"k": op1, "ch": [{"k": "cu", "rel": "y"}]}, "restr": []}, {"name": "y", "rw": {"k": op1, "ch": [{"k": "cu", "rel": "x"}]}, "restr": []},
                {"name": "z", "rw": {"k": "cu", "rel": "x"}, "restr": []}]
        out.append({"id": "soc%s" % op1, "m": {"types": [{"name": "doc", "rels": rels}, {"name": "user", "rels": []}]}})
    return out


def dangling_families():
    """References to relations nobody defines: a userset restriction or a computed userset that names folder#reader / doc#reader although
    no such relation exists gets a node (it is mentioned), a tuple-to-userset through a parent type that lacks the relation gets NO edge
    from it - whatever was mentioned before, in whatever order the names sort."""
    out = []
    this = {"k": "this"}

    def ty(t, kind="type", rel=""):
        return {"t": t, "kind": kind, "rel": rel, "cond": ""}
    k = 0
    for mention in ("audit", "zaudit"):                  # sorts before / after the relation that holds the tuple-to-userset
        for parents in (["folder"], ["archive", "folder"], ["folder", "archive"]):
            for how in ("uset", "cu", "none"):
                rels = [{"name": "can_read", "rw": {"k": "ttu", "rel": "reader", "ts": "parent"}, "restr": []},
                        {"name": "parent", "rw": this, "restr": [ty(p) for p in parents]}]
                if how == "uset":
                    rels.append({"name": mention, "rw": this, "restr": [ty("folder", "uset", "reader"), ty("user")]})
                elif how == "cu":
                    rels.append({"name": mention, "rw": {"k": "union", "ch": [this, {"k": "cu", "rel": "reader"}]}, "restr": [ty("user")]})
                rels.sort(key=lambda r: r["name"])
                types = [{"name": "archive", "rels": [{"name": "reader", "rw": this, "restr": [ty("user")]}]},
                         {"name": "doc", "rels": rels},
                         {"name": "folder", "rels": [{"name": "owner", "rw": this, "restr": [ty("user")]}]},      # no reader here
                         {"name": "user", "rels": []}]
                out.append({"id": "dg%d" % k, "m": {"types": types}})
                k += 1
    return out


def run(pid, tier):
    chk = Check(pid, tier, "model_checking")
    sc = Scratch()
    try:
        binary = build_harness(sc)
        # the shape-menu universe of the weighted graph (models only) ...
        shapes = "<<" + ",".join(str(i) for i in range(1, 28)) + ">>"
        menu2 = "<<1,3,4,6,9,11,13,22,27>>" if tier == "quick" else shapes
        cfg = chk_wgraph.MC_CFG % {"devs": chk_wgraph.DEVS_CURRENT, "nfree": 2, "menu": shapes, "menu2": menu2}
        u = run_tlc("WGraphMC", cfg, sc, cache=True, timeout=3000, defs="MenuSeqV == %s\nMenu2SeqV == %s" % (shapes, menu2))
        models = [{"id": r["id"], "m": r["m"]} for r in u.records if r["rec"] == "input"]
        # ... plus seeded random larger models
        gen = sc.path("gen.ndjson")
        run_harness(binary, ["wg-gen", "-out", gen, "-n", str(150 if tier == "quick" else 1500), "-seed", str(SEED)])
        models += read_ndjson(gen)
        models += computed_families(tier)
        models += single_operand_families()
        models += dangling_families()
        calls = 3 if tier == "quick" else 4
        res = run_models(chk, binary, sc, models, calls, 20 if tier == "quick" else 50, "pg")
        log("TLC: %d models, %d states of the API automaton (Build ; Reverse^%d), %.0fs" % (len(models), res.distinct, calls, res.wall))
        chk.cov.update(states=res.distinct, transitions=res.generated, traces_validated_against_impl=chk.cov.get("states_compared", 0),
                       evaluations=chk.cov.get("states_compared", 0), distinct_nontrivial=len({json.dumps(m["m"], sort_keys=True) for m in models}),
                       rule="models = shape-menu universe (frame + 2 free relations) + seeded random models of 1-3 object types + every definition of 4 relations as direct / computed userset of one of them "
                            "(also under names differing only in case) + operators with a single operand; per model the call sequences Build ; Reverse^k, k <= %d; "
                            "all path queries between public labels in every state; 20-50 repeated builds and double reversals for DOT; distinct by abstract model" % calls)
        for m in models[:1] + models[-1:]:
            chk.sample({"model": m["m"]})
        chk.assumptions += ["DOT text is compared between builds / reversals of the same model, not predicted byte by byte",
                            "cycle clause: only the two cases the statement fixes (pure computed cycle => compile-time flag; acyclic => no flag)"]
        return chk.finish()
    finally:
        sc.cleanup()


def replay(pid, path):
    r = json.load(open(path))
    chk = Check(pid, "quick", "model_checking")
    sc = Scratch()
    try:
        binary = build_harness(sc)
        run_models(chk, binary, sc, [{"id": r.get("model_id", "replay"), "m": r["model"]}], 4, 50, "replay")
        log("replay of %s: %s" % (path, "still violates" if chk.violations else "no violation"))
        return 1 if chk.violations else 0
    finally:
        sc.cleanup()
