"""C15 - fga.mod.  Specification: spec/ModFile.tla.

MC  : the path check as a finite character automaton; TLC explores all reachable states (strings of EVERY length):
      AcceptedPathSafe. PathsOK ties the automaton to the functional reading Verdict(s) on all strings <= MaxLen.
RP  : every string <= MaxLen over the 15-character alphabet (each also with ".fga" appended), embedded in a manifest,
      goes through the real TransformModFile: verdict kind, returned bytes, line/column must equal the specification;
      safety is also evaluated directly on every real accepted value. Manifests from an entry pool x YAML styles:
      positions of schema / contents / every item, one error per offending entry with its position and kind.
      Seeded random longer strings are evaluated by the specification (Given mode) and replayed the same way.
"""
import json
import random

from vlib import *

CFG = """INIT %(mode)sInit
NEXT %(mode)sNext
CONSTANTS
  MaxLen = %(maxlen)d
  MaxEntries = %(maxentries)d
INVARIANT %(inv)s
CHECK_DEADLOCK FALSE
"""


def real_safe(b):
    s = bytes(b)
    if s.startswith(b"/") or b"\\" in s or not s.endswith(b".fga"):
        return False
    return b".." not in s.split(b"/")


def compare(chk, r, o):
    """r: record printed by the specification, o: observation of the real TransformModFile on r.text"""
    rep = {"text": r["text"], "expected": {k: v for k, v in r.items() if k != "text"}, "observed": o}
    if o["result"] in ("panic", "othererr") or (o["result"] == "yamlerr"):
        chk.violation("TransformModFile %s on a well-formed manifest: %s" % (o["result"], o.get("msg")), rep)
        return
    if o.get("msg"):
        chk.violation("error returned together with a manifest", rep)
        return
    if r["rec"] == "path":
        if o["result"] == "ok":
            chk.add("accepted_paths")
            if not real_safe(o["items"][0]["value"]):
                chk.violation("accepted manifest returns an unsafe path %r" % bytes(o["items"][0]["value"]), rep)
                return
        exp_ok = r["v"] == "ok"
        if (o["result"] == "ok") != exp_ok:
            chk.violation("path %r: real %s, specification says %s" % (r["s"], o["result"], r["v"]), rep)
        elif exp_ok:
            it = o["items"][0]
            if it["value"] != r["path"]:
                chk.violation("path %r: returned %r, specification says %r" % (r["s"], bytes(it["value"]), bytes(r["path"])), rep)
            elif (it["line"], it["col"]) != (r["line"], r["col"]) or bytes(o["schema"]["value"]) != b"1.2":
                chk.violation("path %r: position (%d,%d) does not point at the value (%d,%d)" % (r["s"], it["line"], it["col"], r["line"], r["col"]), rep)
        else:
            if len(o["errors"]) != 1:
                chk.violation("path %r: %d errors for one offending entry" % (r["s"], len(o["errors"])), rep)
            else:
                e = o["errors"][0]
                if (e["line"], e["col"]) != (r["line"], r["col"]):
                    chk.violation("path %r: error position (%d,%d) is not the entry's (%d,%d)" % (r["s"], e["line"], e["col"], r["line"], r["col"]), rep)
                elif e["kind"] != r["v"]:
                    chk.drift.append({"path": r["s"], "error_kind_real": e["kind"], "spec": r["v"]})
        return
    if r["rec"] == "oddschema":
        if o["result"] == "ok" and bytes(o["schema"]["value"]) != b"1.2":
            chk.violation("manifest accepted with schema %r: whenever a manifest is accepted the schema is '1.2'" % bytes(o["schema"]["value"]).decode("latin1"), rep)
        return
    if r["rec"] == "styled":
        # anchors / aliases / block and tagged scalars: verdict, values in manifest order, one error per offending entry (no positions claimed)
        if (o["result"] == "ok") != r["ok"]:
            chk.violation("manifest %s but the specification says %s" % (o["result"], "accepted" if r["ok"] else "rejected"), rep)
        elif r["ok"]:
            got = [bytes(i["value"]).decode("latin1") for i in o["items"]]
            if got != r["values"]:
                chk.violation("returned contents %s differ from the manifest's %s (order/verbatim)" % (got, r["values"]), rep)
            elif bytes(o["schema"]["value"]) != b"1.2":
                chk.violation("accepted with schema %r" % bytes(o["schema"]["value"]), rep)
            for i in o["items"]:
                if not real_safe(i["value"]):
                    chk.violation("accepted manifest returns an unsafe path %r" % bytes(i["value"]), rep)
        elif len(o["errors"]) != r["nerr"]:
            chk.violation("%d errors, expected one per offending entry (%d)" % (len(o["errors"]), r["nerr"]), rep)
        return
    if r["rec"] == "odd":
        if o["result"] == "ok":
            chk.violation("a manifest whose contents node is no list of strings (explicit tag contradicting the node kind) is accepted, contents %s"
                          % [bytes(i["value"]).decode("latin1") for i in o["items"]], rep)
        return
    # manifest
    if (o["result"] == "ok") != r["ok"]:
        chk.violation("manifest %s but the specification says %s" % (o["result"], "accepted" if r["ok"] else "rejected"), rep)
    elif r["ok"]:
        got = [(bytes(i["value"]).decode("latin1"), i["line"], i["col"]) for i in o["items"]]
        exp = [(i["value"], i["line"], i["col"]) for i in r["items"]]
        if [g[0] for g in got] != [e[0] for e in exp]:
            chk.violation("returned contents %s differ from the manifest's %s (order/verbatim)" % ([g[0] for g in got], [e[0] for e in exp]), rep)
        elif got != exp:
            chk.violation("item positions %s do not point at the values %s" % (got, exp), rep)
        elif (o["schema"]["line"], o["schema"]["col"]) != (r["schema"]["line"], r["schema"]["col"]) or bytes(o["schema"]["value"]) != b"1.2":
            chk.violation("schema position (%d,%d) does not point at the value (%d,%d)" % (o["schema"]["line"], o["schema"]["col"], r["schema"]["line"], r["schema"]["col"]), rep)
        elif (o["contents"]["line"], o["contents"]["col"]) != (r["contents"]["line"], r["contents"]["col"]):
            chk.violation("contents position (%d,%d) does not point at the list (%d,%d)" % (o["contents"]["line"], o["contents"]["col"], r["contents"]["line"], r["contents"]["col"]), rep)
        for i in o["items"]:
            if not real_safe(i["value"]):
                chk.violation("accepted manifest returns an unsafe path %r" % bytes(i["value"]), rep)
    else:
        got = sorted((e["line"], e["col"]) for e in o["errors"])
        exp = sorted((e[0], e[1]) for e in r["errors"])
        if got != exp:
            chk.violation("errors at %s, expected exactly one per offending entry at %s" % (got, exp), rep)
        elif sorted((e["line"], e["col"], e["kind"]) for e in o["errors"]) != sorted(tuple(e) for e in r["errors"]):
            chk.drift.append({"manifest": r["text"], "error_kinds_real": sorted(e["kind"] for e in o["errors"]), "spec": sorted(e[2] for e in r["errors"])})


def replay_records(chk, binary, sc, recs, tag):
    inp, out = sc.path(tag + ".in.ndjson"), sc.path(tag + ".out.ndjson")
    write_ndjson(inp, recs)
    run_harness(binary, ["modfile-replay", "-in", inp, "-out", out])
    obs = read_ndjson(out)
    if len(obs) != len(recs):
        raise Infra("harness returned %d observations for %d records" % (len(obs), len(recs)))
    for r, o in zip(recs, obs):
        compare(chk, r, o)
    chk.add("evaluations", len(recs))


def run(pid, tier):
    chk = Check(pid, tier, "model_checking")
    sc = Scratch()
    try:
        binary = build_harness(sc)
        maxlen = 4 if tier == "quick" else 5
        maxent = 2 if tier == "quick" else 3
        base = {"maxlen": maxlen, "maxentries": maxent}
        aut = run_tlc("ModFile", CFG % dict(base, mode="Aut", inv="AcceptedPathSafe"), sc, cache=True)
        if aut.violated:
            raise Infra("AcceptedPathSafe is violated on the automaton of spec/ModFile.tla:\n" + aut.tail[-1500:])
        log("automaton: %d distinct states, all string lengths, AcceptedPathSafe holds" % aut.distinct)
        paths = run_tlc("ModFile", CFG % dict(base, mode="Paths", inv="PathsOK"), sc, cache=True, timeout=3000)
        if paths.violated:
            raise Infra("PathsOK violated in spec/ModFile.tla:\n" + paths.tail[-1500:])
        man = run_tlc("ModFile", CFG % dict(base, mode="Manifest", inv="OneErrorPerOffender"), sc, cache=True, timeout=3000)
        if man.violated:
            raise Infra("OneErrorPerOffender violated in spec/ModFile.tla:\n" + man.tail[-1500:])
        # seeded random longer strings, verdicts computed by the specification
        rng = random.Random(SEED)
        alpha = "./\\%25eEfFcC+ag"
        frag = ["..", "../", "..\\", "%2e", "%2E", "%2f", "%2F", "%5c", "%5C", ".fga", "/", "a", "%", "+", "g/"]
        given = []
        for i in range(2000 if tier == "quick" else 20000):
            if i % 2:
                s = "".join(rng.choice(alpha) for _ in range(rng.randint(5, 12)))
            else:
                s = "".join(rng.choice(frag) for _ in range(rng.randint(2, 6))) + rng.choice(["", ".fga", ".fga", "%2efga"])
            given.append({"s": s})
        gf = sc.path("modfile_given.ndjson")
        write_ndjson(gf, given)
        giv = run_tlc("ModFile", CFG % dict(base, mode="Given", inv="GivenOK"), sc, data_files={"modfile_given.ndjson": gf}, timeout=3000)
        if giv.violated:
            raise Infra("GivenOK violated in spec/ModFile.tla:\n" + giv.tail[-1500:])
        odd = run_tlc("ModFile", CFG % dict(base, mode="Odd", inv="OddOK"), sc, cache=True)
        replay_records(chk, binary, sc, odd.records, "odd")
        odds = run_tlc("ModFile", CFG % dict(base, mode="OddSchema", inv="OddSchemaOK"), sc, cache=True)
        replay_records(chk, binary, sc, odds.records, "oddschema")
        sty = run_tlc("ModFile", CFG % dict(base, mode="Styled", inv="StyledOK"), sc, cache=True)
        replay_records(chk, binary, sc, sty.records, "styled")
        log("TLC: paths %d states (%.0fs), manifests %d states (%.0fs), given %d (%.0fs)" % (paths.distinct, paths.wall, man.distinct, man.wall, giv.distinct, giv.wall))
        replay_records(chk, binary, sc, paths.records, "paths")
        replay_records(chk, binary, sc, man.records, "man")
        replay_records(chk, binary, sc, giv.records, "given")
        allrecs = paths.records + man.records + giv.records
        chk.cov.update(states=aut.distinct + paths.distinct + man.distinct + giv.distinct,
                       transitions=aut.generated + paths.generated + man.generated + giv.generated,
                       traces_validated_against_impl=len(allrecs) - len([v for v in chk.violations]),
                       distinct_nontrivial=len({r["text"] for r in allrecs}),
                       rule="all strings <= %d over the 15-character path alphabet (each also with .fga appended), manifests of <= %d entries from a pool of 17 x 96 YAML styles, "
                            "seeded random longer strings; distinct by manifest text" % (maxlen, maxent),
                       exhaustive=True, automaton_states=aut.distinct)
        for r in (paths.records[:1] + paths.records[-1:] + man.records[:1] + giv.records[:1]):
            chk.sample(r)
        chk.assumptions += ["YAML positions are claimed for untagged plain/quoted scalars in block or flow sequences only; anchors, aliases, block and tagged scalars are checked for verdict, values and error count (Styled of spec/ModFile.tla)",
                            "the position of a quoted scalar is the position of its opening quote"]
        return chk.finish()
    finally:
        sc.cleanup()


def replay(pid, path):
    r = json.load(open(path))
    chk = Check(pid, "quick", "model_checking")
    sc = Scratch()
    try:
        binary = build_harness(sc)
        rec = dict(r["expected"], text=r["text"])
        replay_records(chk, binary, sc, [rec], "replay")
        log("replay of %s: %s" % (path, "still violates" if chk.violations else "no violation"))
        return 1 if chk.violations else 0
    finally:
        sc.cleanup()
