"""C07, C12 (and the merge half of C16) - module merger.  Specification: spec/Merge.tla (+ MergeMC, MergeTrace).

MC : TLC runs the Impl state machine of TransformModuleFilesToModel over every sequence of <= MaxFiles files drawn from a
     pool of abstract files (every feature / conflict kind; the same pool file may occur twice) and checks
     MergeSucceedsIffConflictFree, MergedIsAttributedUnion, ErrorNamesOffendingFile against the Ideal layer.
RP : every file set, rendered by the specification (so it knows the line of every declaration), goes through the real
     merger 20-200 times and under every permutation of the file list.
TV : seeded random larger file sets are rendered by the harness' generator, merged by the real code, and TLC evaluates
     the Ideal and Impl layers on the recorded abstract files.
"""
import hashlib
import json
import random

from vlib import *

DEVS_CURRENT = os.environ.get("VERIF_DEVS", '{"ModelFileAccepted"}')

CFG = """SPECIFICATION Spec
CONSTANTS
  SetAt <- %(setat)s
  NumSets <- %(numsets)s
  Devs = %(devs)s
%(extra)s
CHECK_DEADLOCK FALSE
INVARIANTS
  NeverPanics
  MergeSucceedsIffConflictFree
  MergedIsAttributedUnion
  ErrorNamesOffendingFile
"""
if "VERIF_DEVS" in os.environ:      # experiment with an older tree: the Ideal-comparing invariants are expected to fail
    CFG = CFG[:CFG.index("INVARIANTS")]

SCHEMAS = ["1.2", "1.1", "", "2.0-beta", "1.2"]


class FS:
    def __init__(self, rec):
        self.id = rec["id"]
        self.files = rec["files"]
        self.ideal = rec["ideal"]
        self.impl = []
        self.obs = None
        self.schema = SCHEMAS[int(hashlib.md5(self.id.encode()).hexdigest(), 16) % len(SCHEMAS)]
        self.has_model_file = any(f["abs"]["header"] == "" for f in self.files)


def collect(records):
    sets = {}
    for r in records:
        if r["rec"] == "input":
            sets.setdefault(r["id"], FS(r))
    for r in records:
        if r["rec"] == "outcome":
            sets[r["id"]].impl.append(r["out"])
    return sets


def marker_file(fs, marker):
    """restriction type k<i> / expression `x < i` -> name of the i-th file"""
    try:
        i = int(marker)
        return fs.files[i - 1]["name"]
    except Exception:
        return "?" + str(marker)


def real_model(fs, o):
    types = [tuple(t) for t in o["types"]]
    rels = set()
    via_bad = []
    for t, r, mod, fil, marker, via in o["rels"]:
        src = marker_file(fs, marker.split("|")[0][1:]) if marker.startswith("k") else "?" + marker
        rels.add((t, r, mod, fil, src))
        tmod = next((x[1] for x in types if x[0] == t), None)
        if via != (mod or tmod):
            via_bad.append((t, r, via, mod or tmod))
    conds = set()
    for name, mod, fil, expr, cname in o["conds"]:
        src = marker_file(fs, expr.replace(" ", "").split("<")[-1])
        if src == "?100":          # a body that does not say which file wrote it (pool files 24 / 25)
            src = fil
        conds.add((name, mod, fil, src, cname))
    return types, rels, conds, via_bad


def ideal_model(fs):
    m = fs.ideal["model"]
    return [tuple(t) for t in fs.ideal["typeseq"]], {tuple(r) for r in m["rels"]}, {(c[0], c[1], c[2], c[2], c[0]) for c in m["conds"]}


def impl_matches(fs, o):
    """does some Impl outcome predict exactly this real outcome (verdict, error sequence, attributed content)?"""
    types, rels, conds, _ = real_model(fs, o) if o["result"] == "ok" else ([], set(), set(), None)
    for i in fs.impl:
        if i["res"] != o["result"]:
            continue
        if o["result"] == "err":
            got = [(e["kind"], e["name"], e["file"]) for e in o["errs"]]
            exp = [tuple(e) for e in i["errs"]]
            # a file with a syntax error contributes one Impl entry and one or more real ones
            if [g for g in got if g[0] != "syntax"] == [e for e in exp if e[0] != "syntax"]:
                return True
        elif o["result"] == "ok":
            if types == [tuple(t) for t in i["types"]] and rels == {tuple(r) for r in i["rels"]} and {c[:3] for c in conds} == {tuple(c) for c in i["conds"]}:
                return True
        else:
            return True
    return False


def judge(chk, pid, fs, kf_ids):
    obs = fs.obs
    ideal_ok = fs.ideal["ok"]
    replay = {"id": fs.id, "files": [{"name": f["name"], "text": f["text"], "abs": f["abs"]} for f in fs.files], "schema": fs.schema,
              "ideal": {"ok": ideal_ok, "conflicts": fs.ideal["conflicts"]}}
    offending = {c[2] for c in fs.ideal["conflicts"]}

    def kf_or_violation(o, what):
        if fs.has_model_file and "D12" in kf_ids and impl_matches(fs, o) and o["result"] != "panic":
            chk.known_finding("D12")
            return
        chk.violation(what, dict(replay, observed={k: o[k] for k in ("result", "errs", "types", "rels", "conds", "msg") if k in o}))

    if pid == "C07":
        for o in obs["outcomes"]:
            if o["result"] == "panic":
                chk.violation("merge panicked: %s" % o.get("msg"), dict(replay, observed=o))
                continue
            if (o["result"] == "ok") != ideal_ok:
                kf_or_violation(o, "merge %s but the file set is %s (conflicts %s)" % (o["result"], "conflict-free" if ideal_ok else "not conflict-free", fs.ideal["conflicts"]))
                continue
            if o["result"] == "ok":
                types, rels, conds, via_bad = real_model(fs, o)
                it, ir, ic = ideal_model(fs)
                if types != it:
                    chk.violation("merged types %s differ from the declared ones %s" % (types, it), dict(replay, observed=o))
                elif rels != ir:
                    chk.violation("merged relations differ from the attributed union: real-only %s ideal-only %s" % (sorted(rels - ir), sorted(ir - rels)), dict(replay, observed=o))
                elif conds != ic:
                    chk.violation("merged conditions differ: real-only %s ideal-only %s" % (sorted(conds - ic), sorted(ic - conds)), dict(replay, observed=o))
                elif via_bad:
                    chk.violation("GetModuleForObjectTypeRelation disagrees with the attribution: %s" % via_bad, dict(replay, observed=o))
                elif o["schema"] != fs.schema:
                    chk.violation("schema version %r instead of the requested %r" % (o["schema"], fs.schema), dict(replay, observed=o))
            else:
                if o["partial"]:
                    chk.violation("error together with a (partial) model", dict(replay, observed=o))
                bad = [e for e in o["errs"] if e["kind"] != "syntax" and e["file"] not in offending]
                if bad:
                    kf_or_violation(o, "conflict error does not name an offending file: %s (offending: %s)" % ([(e["kind"], e["name"], e["file"]) for e in bad], sorted(offending)))
                # ... and the converse: a file that holds a conflicting declaration is named by at least one of the returned errors (two files
                # with the same conflict on the same line are two conflicts). Only where every file parses: what else is reported next to a
                # syntax error is not fixed by the statement.
                elif not any(c[0] in ("syntax", "notmodule") for c in fs.ideal["conflicts"]):
                    named = {e["file"] for e in o["errs"]}
                    silent = sorted(set(fs.ideal["mustname"]) - named)
                    if silent:
                        kf_or_violation(o, "file(s) %s hold a conflicting declaration and no returned error names them (named: %s; conflicts %s)" % (
                            silent, sorted(named), fs.ideal["conflicts"]))
        return

    if pid == "C12":
        if len(obs["outcomes"]) > 1:
            a, b = obs["outcomes"][0], obs["outcomes"][1]
            chk.violation("%d invocations on the same file list gave %d different outcomes, e.g. %s (x%d) vs %s (x%d)" % (
                obs["runs"], len(obs["outcomes"]), [(e["kind"], e["name"], e["file"]) for e in a["errs"]] or a["result"], a["count"],
                [(e["kind"], e["name"], e["file"]) for e in b["errs"]] or b["result"], b["count"]), dict(replay, a=a, b=b))
            return
        base = obs["outcomes"][0]
        for p in obs.get("perms") or []:
            if len(p["outcomes"]) > 1:
                chk.violation("file order %s: repeated invocations differ" % p["order"], dict(replay, order=p["order"], outcomes=p["outcomes"]))
                continue
            o = p["outcomes"][0]
            if (o["result"] == "ok") != (base["result"] == "ok"):
                chk.violation("permuting the files (%s) changes whether the merge succeeds: %s vs %s" % (p["order"], base["result"], o["result"]), dict(replay, order=p["order"], base=base, permuted=o))
            elif o["result"] == "ok":
                if sorted(map(tuple, o["types"])) != sorted(map(tuple, base["types"])) or o["rels"] != base["rels"] or o["conds"] != base["conds"]:
                    chk.violation("permuting the files (%s) changes more than the order of type definitions" % p["order"], dict(replay, order=p["order"], base=base, permuted=o))
        return

    if pid == "C16":
        # "the line of that file on which the conflicting declaration itself stands": any declaration of that name and
        # kind in the blamed file that takes part in the conflict (a type declared twice in ONE file conflicts on both lines)
        conflicts = {(c[0], c[1], c[2]) for c in fs.ideal["conflicts"]}
        names = [f["name"] for f in fs.files]
        model_file = any(f["abs"]["header"] == "" for f in fs.files)       # (D12: a model file is merged like a module - judged by C07)
        if len(set(names)) < len(names):
            # two list entries under one name: "the file containing the conflict" is not determined by a file name (DESIGN II.6b);
            # such lists are judged by C07 / C12 only
            chk.add("same_name_lists_outside_c16")
            return
        for o in obs["outcomes"]:
            for e in o["errs"]:
                k = (e["kind"], e["name"], e["file"])
                if e["kind"] in ("duptype", "dupcond", "noext", "duprel") and k not in conflicts and not model_file \
                        and any((c[0], c[1]) == (e["kind"], e["name"]) for c in conflicts):
                    # "names the file containing the conflict": the conflict exists, in another file than the one named
                    chk.add("merge_positions_checked")
                    chk.violation("%s %s is reported in %s; the conflicting declaration stands in %s" % (
                        e["kind"], e["name"], e["file"], sorted(c[2] for c in conflicts if (c[0], c[1]) == (e["kind"], e["name"]))), dict(replay, error=e))
                if e["kind"] in ("duptype", "dupcond", "noext", "duprel") and k in conflicts:
                    chk.add("merge_positions_checked")
                    f = next(f for f in fs.files if f["name"] == e["file"])
                    if e["kind"] == "duprel":
                        t, r = e["name"].split("#")
                        ok_lines = {l[3] for l in f["lines"] if l[0] == "rel" and l[1] == t and l[2] == r}
                    else:
                        want = {"duptype": "type", "dupcond": "cond", "noext": "ext"}[e["kind"]]
                        ok_lines = {l[3] for l in f["lines"] if l[0] == want and l[1] == e["name"]}
                    if e["line"] not in ok_lines:
                        text = f["text"].split("\n")
                        what = "%s %s in %s reported on line %d (%r), the conflicting declaration stands on line %s" % (
                            e["kind"], e["name"], e["file"], e["line"], text[e["line"]] if 0 <= e["line"] < len(text) else None, sorted(ok_lines))
                        chk.violation(what, dict(replay, error=e, expected_lines=sorted(ok_lines)))


def prefix_decoy(text, e, want):
    """class predicate of D14: the reported line is an EARLIER line that starts with the same keyword + name prefix"""
    if not (0 <= e["line"] < want):
        return False
    name = e["name"].split("#")[-1]
    kw = {"duptype": "type ", "dupcond": "condition ", "noext": "extend type ", "duprel": "define "}[e["kind"]]
    return text[e["line"]].strip().startswith(kw + name)


def replay_findings(pid, binary, sc):
    active = []
    for f in load_findings():
        if f["status"] != "known" or pid not in f["properties"] or f.get("spec") != "merge":
            continue
        inp, out = sc.path("kf.in.ndjson"), sc.path("kf.out.ndjson")
        write_ndjson(inp, [{"id": f["id"], "files": f["witness"]["files"], "schema": "1.2"}])
        run_harness(binary, ["merge-replay", "-in", inp, "-out", out, "-runs", "5", "-permruns", "0"])
        o = read_ndjson(out)[0]["outcomes"][0]
        exp = f["witness"]["fails_as"]
        still = o["result"] == exp["result"] and all(any(e["kind"] == x["kind"] and e["line"] == x["line"] for e in o["errs"]) for x in exp.get("errs", []))
        if still:
            log("KNOWN-FINDING: property=%s %s: %s" % (pid, f["id"], f["what"]))
            active.append(f["id"])
        else:
            log("note: listed finding %s no longer reproduces on its witness (observed %s)" % (f["id"], o["result"]))
    return active


STEPS_CFG = """SPECIFICATION SSpec
CONSTANTS
  SetAt <- StepSetAt
  NumSets <- StepNumSets
  Devs = %(devs)s
CHECK_DEADLOCK FALSE
INVARIANTS StepsAccepted StepsNotStuck StepsResultOK
"""


def steps_validate(chk, binary, sc, sets, tag, limit, corrupt=None):
    """Impl binding of the merger at the level of its decisions: the events the verif hook VerifMergeTrace emitted during one real merge of
    every file set (which file, type, condition, extension, relation it took next and the branch it went into) are validated by TLC against
    the Impl state machine of spec/Merge.tla (spec/MergeSteps.tla: every Impl action conjoined with its event). A rejected trace is DRIFT."""
    todo = [fs for fs in sets.values() if len({f["name"] for f in fs.files}) == len(fs.files)][:limit]      # (the Impl layer keys files by name)
    inp, out = sc.path(tag + ".steps.in.ndjson"), sc.path("merge_steps.ndjson")
    write_ndjson(inp, [{"id": fs.id, "files": [{"name": f["name"], "text": f["text"]} for f in fs.files], "abs": [f["abs"] for f in fs.files], "schema": fs.schema} for fs in todo])
    run_harness(binary, ["merge-steps", "-in", inp, "-out", out])
    traces = read_ndjson(out)
    if corrupt:
        corrupt(traces)       # (bin/selftest)
        write_ndjson(out, traces)
    if len(traces) != len(todo) or not any(t["events"] for t in traces):
        raise Infra("the merger hook recorded %d traces for %d file sets (hook removed or not compiled in?)" % (len(traces), len(todo)))
    res = run_tlc("MergeSteps", STEPS_CFG % {"devs": DEVS_CURRENT}, sc, data_files={"merge_steps.ndjson": out}, timeout=3000)
    events = sum(len(t["events"]) for t in traces)
    if res.violated:
        bad = traces[res.ints["gi"] - 1] if "gi" in res.ints else None
        chk.drift.append({"merge_steps": "TLC rejects a recorded decision trace of the merger (%s): %s" % (tag, res.violated), "trace": bad})
        log("merger steps (%s): %d merges / %d decisions, REJECTED by the Impl state machine (%s) - drift, not a verdict" % (tag, len(traces), events, res.violated))
        return 0
    log("merger steps (%s): %d merges / %d logged decisions validated by TLC against the Impl state machine (%d states)" % (tag, len(traces), events, res.distinct))
    chk.add("merge_step_traces_validated", len(traces))
    chk.add("merge_decisions_validated", events)
    chk.cov["states"] = chk.cov.get("states", 0) + res.distinct
    chk.cov["transitions"] = chk.cov.get("transitions", 0) + res.generated
    return len(traces)


def run_sets(chk, pid, binary, sc, sets, tag, runs, moreruns, permruns, kf):
    inp, out = sc.path(tag + ".in.ndjson"), sc.path(tag + ".out.ndjson")
    write_ndjson(inp, [{"id": fs.id, "files": [{"name": f["name"], "text": f["text"]} for f in fs.files], "schema": fs.schema} for fs in sets.values()])
    run_harness(binary, ["merge-replay", "-in", inp, "-out", out, "-runs", str(runs), "-moreruns", str(moreruns), "-permruns", str(permruns)])
    for o in read_ndjson(out):
        sets[o["id"]].obs = o
    for fs in sets.values():
        if fs.obs is None:
            raise Infra("no observation for file set " + fs.id)
        for o in fs.obs["outcomes"]:
            if impl_matches(fs, o):
                chk.add("outcomes_explained_by_impl")
            else:
                chk.drift.append({"set": fs.id, "real": [(e["kind"], e["name"], e["file"]) for e in o["errs"]] or o["result"],
                                  "impl": [[tuple(e) for e in i["errs"]] or i["res"] for i in fs.impl][:3]})
        judge(chk, pid, fs, kf)
        chk.add("real_merges", fs.obs["runs"])
    if pid in ("C07", "C12"):
        steps_validate(chk, binary, sc, sets, tag, 4000 if chk.tier == "quick" else 100000)


def run(pid, tier):
    chk = Check(pid, tier, "model_checking")
    sc = Scratch()
    try:
        binary = build_harness(sc)
        run_into(chk, pid, binary, sc, tier)
        return chk.finish()
    finally:
        sc.cleanup()


def run_into(chk, pid, binary, sc, tier):
    if True:
        kf = replay_findings(pid, binary, sc)
        pool = "<<1,2,3,4,5,6,7,8,9,10,11,12,13,14,15,16,17,18,19,20,21,22,23,24,25>>"
        maxfiles = 3 if tier == "quick" else 4
        if tier == "thorough":
            pool = "<<1,2,3,4,5,6,7,8,10,11,12,13,16,18,19,20,22,23,24,25>>"
        if tier == "thorough" and pid == "C12":
            # every permutation of every set, many invocations each: sequences of four files from this pool (168,420 sets) did not finish
            # within the hour; C12 takes all sequences of <= 3 files from the whole pool and many more random sets instead
            pool = "<<1,2,3,4,5,6,7,8,9,10,11,12,13,14,15,16,17,18,19,20,21,22,23,24,25>>"
            maxfiles = 3
        cfg = CFG % {"setat": "MCSetAt", "numsets": "MCNumSets", "devs": DEVS_CURRENT, "extra": "  MaxFiles = %d\n  PoolSeq <- PoolSeqV" % maxfiles}
        res = run_tlc("MergeMC", cfg, sc, cache=True, timeout=3000, defs="PoolSeqV == " + pool)
        if res.violated:
            raise Infra("design-level invariant(s) %s violated on the Impl layer of spec/Merge.tla\n%s" % (res.violated, res.tail[-1500:]))
        sets = collect(res.records)
        log("universe: %d file sets (<= %d files from a pool of %d), %d distinct states, TLC %.0fs%s" % (len(sets), maxfiles, pool.count(",") + 1, res.distinct, res.wall, " (cached)" if res.cached else ""))
        # repetitions: C12 is the property about run-to-run variation, C07 / C16 need few invocations per set
        many = pid == "C12"
        runs, moreruns = ((8, 30) if many else (3, 6)) if tier == "quick" else ((10, 100) if many else (5, 20))
        run_sets(chk, pid, binary, sc, sets, "u", runs, moreruns, 2 if many else 0, kf)
        allsets = list(sets.values())
        gsets, gres = given_sets(chk, pid, binary, sc, random_sets(300 if tier == "quick" else 3000, SEED), kf, runs, moreruns, 2 if many else 0)
        log("random file sets: %d sets (2-6 files), TLC %.0fs" % (len(gsets), gres.wall))
        allsets += list(gsets.values())
        chk.cov.update(states=res.distinct + gres.distinct, transitions=res.generated + gres.generated, traces_validated_against_impl=chk.cov.get("outcomes_explained_by_impl", 0),
                       evaluations=chk.cov.get("real_merges", 0), distinct_nontrivial=len([s for s in allsets if len(s.files) > 1]),
                       rule="all sequences of <= %d files from a pool of abstract module files (every declaration / conflict kind, decoys); non-trivial = more than one file; "
                            "every set is merged repeatedly (10-200 invocations) and, for C12, under every permutation of the file list" % maxfiles,
                       file_sets=len(allsets), exhaustive=True)
        for fs in allsets[:1] + allsets[len(allsets) // 2:len(allsets) // 2 + 2]:
            chk.sample({"files": [{"name": f["name"], "text": f["text"]} for f in fs.files], "ideal_ok": fs.ideal["ok"], "conflicts": fs.ideal["conflicts"],
                        "real": [{"result": o["result"], "errs": [(e["kind"], e["name"], e["file"], e["line"]) for e in o["errs"]], "count": o["count"]} for o in fs.obs["outcomes"][:2]]})
        chk.assumptions += ["syntax errors of a single file are not conflicts: they need not name the file",
                            "file names are distinct and single-line"]


def given_sets(chk, pid, binary, sc, abs_sets, kf, runs, moreruns, permruns):
    """file sets handed to TLC from outside: TLC renders them and evaluates Ideal and Impl, the harness merges the rendering"""
    gf = sc.path("merge_sets.ndjson")
    write_ndjson(gf, abs_sets)
    cfg = CFG % {"setat": "TraceSetAt", "numsets": "TraceNumSets", "devs": DEVS_CURRENT, "extra": ""}
    res = run_tlc("MergeTrace", cfg, sc, data_files={"merge_sets.ndjson": gf}, timeout=3000)
    if res.violated:
        raise Infra("design-level invariant(s) %s violated on the Impl layer of spec/Merge.tla for a given file set\n%s" % (res.violated, res.tail[-1500:]))
    sets = collect(res.records)
    run_sets(chk, pid, binary, sc, sets, "g", runs, moreruns, permruns, kf)
    return sets, res


def fixed_sets():
    """file sets that are part of every run, whatever the seed: two list entries under ONE name (nothing says names are unique), both
    with extensions / both with declarations, in several positions"""
    def f(name, header, decls, conds=()):
        return {"name": name, "header": header, "decls": [{"kind": k, "name": n, "rels": list(r)} for k, n, r in decls], "conds": list(conds), "loose": False}
    base = f("f1.fga", "m1", [("type", "t", ["r"]), ("type", "u", []), ("type", "v", ["y"])])
    e1 = f("x.fga", "m2", [("ext", "t", ["s"])])
    e2 = f("x.fga", "m3", [("ext", "t", ["x"]), ("ext", "u", ["y"])], ["c"])
    e3 = f("x.fga", "m2", [("ext", "v", ["s", "x"])])
    d1 = f("a.fga", "m1", [("type", "t", ["r"])])
    d2 = f("a.fga", "m2", [("type", "u", ["s"])], ["d"])
    sets = [[base, e1, e2], [e1, base, e2], [e2, e1, base], [base, e1, e2, e3], [e3, base, e2, e1], [d1, d2], [d2, d1, e1], [base, e1, dict(e1, header="m3")]]
    return [{"id": "fx%d" % k, "files": [dict(x) for x in fs]} for k, fs in enumerate(sets)]


def random_sets(n, seed):
    rng = random.Random(seed)
    out = fixed_sets()
    for k in range(n):
        nf = rng.randint(2, 6)
        files = []
        for i in range(nf):
            header = rng.choice(["m1", "m2", "m3", "m1", "m2", "m3", "m1", ""]) if rng.random() < 0.25 else rng.choice(["m1", "m2", "m3"])
            decls = []
            for _ in range(rng.randint(0, 3)):
                kind = rng.choice(["type", "ext", "ext"])
                name = rng.choice(["t", "u", "v", "w", "tx", "a"] if kind == "type" else ["t", "u", "v", "t", "u", "z"])
                rels = rng.sample(["r", "s", "x", "y", "R", "S"], rng.randint(0, 3))
                decls.append({"kind": kind, "name": name, "rels": rels})
            conds = rng.sample(["c", "d", "e", "C"], rng.choice([0, 0, 1, 1, 2]))
            files.append({"name": rng.choice(["", "", "", "./", "mods//", "x/../"]) + "f%d.fga" % (i + 1), "header": header, "decls": decls, "conds": conds, "loose": rng.random() < 0.4, "eol": "\r\n" if rng.random() < 0.3 else "\n", "pad": rng.random() < 0.15, "cont": rng.random() < 0.15, "lure": rng.random() < 0.15, "brace": rng.random() < 0.2, "crc": rng.random() < 0.15})
        # make most sets plausible: the first file declares the popular types
        if rng.random() < 0.7:
            files[0] = {"name": "f1.fga", "header": "m1", "decls": [{"kind": "type", "name": "t", "rels": rng.sample(["r"], rng.randint(0, 1))},
                                                                     {"kind": "type", "name": "u", "rels": []}, {"kind": "type", "name": "v", "rels": ["y"]}], "conds": [], "loose": False}
        # nothing says the names of a list are unique: one set in eight has two entries under one name
        if rng.random() < 0.125 and len(files) > 2:
            files[2] = dict(files[2], name=files[1]["name"])
        out.append({"id": "g%d.%d" % (seed, k), "files": files})
    return out


def replay(pid, path):
    """bin/check <ID> --replay <file>: TLC re-evaluates Ideal and Impl on the recorded abstract files, the real merger runs again"""
    r = json.load(open(path))
    chk = Check(pid, "quick", "model_checking")
    sc = Scratch()
    try:
        binary = build_harness(sc)
        kf = replay_findings(pid, binary, sc)
        sets, res = given_sets(chk, pid, binary, sc, [{"id": r["id"], "files": [f["abs"] for f in r["files"]]}], kf, 50, 200, 3)
        log("replay of %s: %s" % (path, "still violates" if chk.violations else "no violation"))
        return 1 if chk.violations else 0
    finally:
        sc.cleanup()
