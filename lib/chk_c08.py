"""C08 - no public entry point panics or hangs.  Specifications: spec/DslLayoutMC.tla (token-mutation neighbourhood),
spec/Degenerate.tla (protobuf models with missing optional parts), spec/Pump.tla (pumped input families and the growth bound).

a. every valid token stream of the layout specification with <= 2 token deletions / duplications / substitutions /
   transpositions / truncations is rendered by TLC and fed to every text entry point under recover();
b. TLC enumerates degenerate protobuf models (base model x set of holes), the harness punches the holes and calls every
   model entry point;
c. TLC generates pumped families (every separator / lexeme class of the layout specification in every grammatical
   context, model families for the graph builders); the harness measures work (heap allocations, an exact count; time for
   the CPU-bound graph families) for doubling n; TLC validates WorkWithinQuadratic on the measurements;
d. auxiliary (not model-derived): seeded random byte mutations of the fixture corpus.
"""
import json
import os
import random
import time

from vlib import *
import chk_dsl

DEG_CFG = """INIT Init
NEXT Next
CONSTANTS
  MaxHoles = %(holes)d
  Bases = {1, 2, 3}
CHECK_DEADLOCK FALSE
"""
DEG_VAL_CFG = """INIT OutInit
NEXT OutNext
CONSTANTS
  MaxHoles = 1
  Bases = {1}
CHECK_DEADLOCK FALSE
INVARIANT TotalOnDegenerateModels
"""
PUMP_GEN_CFG = "INIT GenInit\nNEXT GenNext\nCHECK_DEADLOCK FALSE\n"
PUMP_VAL_CFG = "INIT ValInit\nNEXT ValNext\nCHECK_DEADLOCK FALSE\nINVARIANT WorkWithinQuadratic\n"


DSL_ENTRIES = ("TransformDSLToProto", "TransformDSLToJSON", "TransformModularDSLToProto", "TransformModuleFilesToModel", "TransformModuleFilesToModel/samename")


def mutation_jobs(tier):
    rng = random.Random(SEED)
    jobs = []
    docs = [0, 7, 14] if tier == "quick" else list(range(0, 27))
    for d in docs:
        for i in range(90):
            for kind in ("del", "dup", "swap", "cut"):
                jobs.append({"doc": d, "mut": [[kind, i, 0]]})
            for j in range(0, 40, 1 if tier == "thorough" or d == 0 else 4):
                jobs.append({"doc": d, "mut": [["sub", i, j]]})
    # a character outside the lexer's alphabet glued to the end of every lexeme: the lexer drops it, the remaining tokens are a
    # sentence, and yet "a syntax error in the input is always reported through the returned error"
    for d in ([0, 5, 7, 14] if tier == "quick" else list(range(0, 27))):
        for i in range(90):
            for j in ((i % 10, (i + 3) % 10) if tier == "quick" else range(10)):
                jobs.append({"doc": d, "mut": [["junk", i, j]]})
    # module files whose lines end in a bare CR or a form feed (both are line terminators for the lexer, neither for the
    # line lookups of the merge errors): the documents of the universe that declare `type user` / `type doc` collide with core.fga
    for d in range(0, 54 if tier == "quick" else 540):
        for eol in ("\r", "\f"):
            jobs.append({"doc": d, "style": dict(chk_dsl.BASE_STYLE, eol=eol, fin=rng.choice(["", eol]))})
    for _ in range(3000 if tier == "quick" else 40000):
        jobs.append({"doc": rng.randrange(0, 300), "mut": [[rng.choice(["del", "dup", "sub", "swap", "cut", "sub"]), rng.randrange(0, 200), rng.randrange(0, 40)] for _ in range(2)]})
    out = []
    for k, j in enumerate(jobs):
        style = dict(chk_dsl.BASE_STYLE)
        if k % 5 == 4:
            style = {kk: rng.choice(v) for kk, v in chk_dsl.STYLE_SPACE.items()}
        o = {"id": "T%d" % k, "doc": j["doc"], "viol": 0, "vsite": 0, "style": j.get("style", style), "ov": []}
        if "mut" in j:
            o["mut"] = j["mut"]
        out.append(o)
    return out


def run(pid, tier):
    chk = Check(pid, tier, "exploration")
    sc = Scratch()
    try:
        binary = build_harness(sc)
        findings = [f for f in load_findings() if f["status"] == "known" and pid in f["properties"]]

        # ---- a. token-mutation neighbourhood
        jobs = mutation_jobs(tier)
        jf = sc.path("layout_jobs.ndjson")
        write_ndjson(jf, jobs)
        res = run_tlc("DslLayoutMC", chk_dsl.LAYOUT_CFG, sc, data_files={"layout_jobs.ndjson": jf}, defs=chk_dsl.LAYOUT_DEFS, timeout=3000, cache=True)
        texts = {r["id"]: r["text"] for r in res.records}
        mustreject = {r["id"] for r in res.records if r["mustreject"]}
        if len(texts) != len(jobs):
            raise Infra("TLC rendered %d of %d mutation jobs\n%s" % (len(texts), len(jobs), res.tail[-1500:]))
        # ---- d. auxiliary: random byte mutations of the fixture corpus
        rng = random.Random(SEED)
        corpus = []
        for root, _, files in os.walk(os.path.join(REPO, "tests/data")):
            for f in files:
                if f.endswith((".fga", ".json", ".yaml", ".mod")) and os.path.getsize(os.path.join(root, f)) < 20000:
                    corpus.append(open(os.path.join(root, f), errors="replace").read())
        aux = {}
        for k in range(1500 if tier == "quick" else 20000):
            t = rng.choice(corpus)
            for _ in range(rng.randint(1, 4)):
                i = rng.randrange(0, max(1, len(t)))
                how = rng.randrange(0, 4)
                t = t[:i] + (rng.choice("[]{}()#:*,\"'\\\n\t\f\r x0-<>") if how == 0 else "" if how == 1 else t[i:i + rng.randint(1, 30)] * 2 if how == 2 else chr(rng.randrange(1, 0x2fff))) + t[i + (1 if how in (1, 3) else 0):]
            aux["A%d" % k] = t[:rng.randrange(1, len(t) + 1)] if rng.random() < 0.2 else t
        # ... and texts that are NOT JSON (Python's json module is the judge of that): a model, the API envelope around it, an array around
        # it, each with something glued in front of or behind it, cut short, or written twice - "a syntax error in the input is always
        # reported through the returned error" for the JSON entry points
        import json as _json
        jsonreject = set()
        jmodels = []
        for d in sorted(os.listdir(os.path.join(REPO, "tests/data/transformer")))[:8]:
            f = os.path.join(REPO, "tests/data/transformer", d, "authorization-model.json")
            if os.path.exists(f):
                jmodels.append(_json.dumps(_json.load(open(f))))
        jn = 0
        for m in jmodels[:4] if tier == "quick" else jmodels:
            for base in (m, '{"authorization_model":%s}' % m, '{"authorization_model": %s, "id": "x"}' % m, "[%s]" % m, '{"model":%s}' % m):
                cands = [base + tail for tail in (" trailing", "}", "]", ",", "{", '"', " and some more", "\n{", base, "\n" + m)]
                cands += [head + base for head in ("x", "}", ",", '"')]
                cands += [base[:cut] for cut in range(1, len(base), max(7, len(base) // 12))]
                for t in cands:
                    try:
                        _json.loads(t)
                    except ValueError:
                        aux["J%d" % jn] = t
                        jsonreject.add("J%d" % jn)
                        jn += 1
        inp, out = sc.path("c08a.in.ndjson"), sc.path("c08a.out.ndjson")
        write_ndjson(inp, [{"id": k, "text": v} for k, v in list(texts.items()) + list(aux.items())])
        run_harness(binary, ["c08-text", "-in", inp, "-out", out])
        alltexts = dict(texts, **aux)
        slow = []
        for o in read_ndjson(out):
            chk.add("text_inputs")
            for entry, r in o["results"].items():
                if r == "hang":
                    chk.violation("%s does not return (20 s) on %s input %s of %d bytes" % (entry, "a token-mutated" if o["id"].startswith("T") else "a byte-mutated fixture", o["id"], o["len"]),
                                  {"entry": entry, "text": alltexts[o["id"]], "result": r, "model_derived": o["id"].startswith("T")})
                if r.startswith("panic"):
                    chk.violation("%s panics on %s input %s: %s" % (entry, "a token-mutated" if o["id"].startswith("T") else "a byte-mutated fixture", o["id"], r[:200]),
                                  {"entry": entry, "text": alltexts[o["id"]], "result": r, "model_derived": o["id"].startswith("T")})
            if o["id"] in mustreject:
                chk.add("unlexable_documents")
                for entry in DSL_ENTRIES:
                    if o["results"][entry] == "ok":
                        chk.violation("%s returns a result and no error for a document with a character the lexer has no rule for (%s)" % (entry, o["id"]),
                                      {"entry": entry, "text": alltexts[o["id"]], "result": "ok", "expected": "error", "model_derived": True})
            if o["id"] in jsonreject:
                chk.add("texts_that_are_not_json")
                for entry in ("TransformJSONStringToDSL", "LoadJSONStringToProto"):
                    if o["results"][entry] == "ok":
                        chk.violation("%s returns a result and no error for a text that is not JSON (%s)" % (entry, o["id"]),
                                      {"entry": entry, "text": alltexts[o["id"]], "result": "ok", "expected": "error", "model_derived": False})
            if o["ms"] > 2000:
                slow.append((o["id"], o["ms"], o["len"]))
        for s in slow[:3]:
            chk.notes.append("slow input %s: %d ms for %d bytes (growth is judged by the pumping families)" % s)
        log("  [%.0fs]" % (time.time() - chk.t0))
        log("a/d: %d token-mutated documents (TLC, %d states) + %d byte-mutated fixtures through 9 text entry points" % (len(texts), res.distinct, len(aux)))
        states, trans = res.distinct, res.generated
        # the listener automaton (spec/DslDoc.tla) has to explain what the real listener did on these documents too: contexts with
        # missing parts after error recovery, early returns, and - were there one - the callback at which the Go code would panic
        stuck = {o["id"] for o in read_ndjson(out) if any(r in ("hang", "notrun") for r in o["results"].values())}
        nd = chk_dsl.doc_validate(chk, binary, sc, [{"id": k, "text": v, "src": ["none", 0, 0]} for k, v in (list(texts.items()) + list(aux.items()))[::1 if tier == "quick" else 2][:15000] if len(v) < 30000 and k not in stuck and not stuck],
                                  "token-mutated documents and byte-mutated fixtures")
        # ... and their token streams against the lexer automaton (spec/Lexer.tla): the lexer on texts that are NOT sentences
        chk_dsl.lexer_validate(chk, binary, sc, [{"id": k, "text": v} for k, v in (list(texts.items()) + list(aux.items()))[::5 if tier == "quick" else 2][:15000] if len(v) < 20000 and k not in stuck and not stuck],
                               "token-mutated documents and byte-mutated fixtures")

        # ---- e. fga.mod: every path string of the ModFile.tla universe (all strings <= 4 over the path alphabet, each also with .fga
        # appended) and its manifests in all YAML styles go through TransformModFile under recover()
        import chk_modfile
        base = {"maxlen": 4 if tier == "quick" else 5, "maxentries": 2 if tier == "quick" else 3}
        mrecs = []
        for mode, inv in (("Paths", "PathsOK"), ("Manifest", "OneErrorPerOffender"), ("Odd", "OddOK"), ("OddSchema", "OddSchemaOK"), ("Styled", "StyledOK"), ("Broken", "BrokenOK")):
            mrecs += run_tlc("ModFile", chk_modfile.CFG % dict(base, mode=mode, inv=inv), sc, cache=True, timeout=3000).records
        mi, mo = sc.path("c08e.in.ndjson"), sc.path("c08e.out.ndjson")
        write_ndjson(mi, mrecs)
        run_harness(binary, ["modfile-replay", "-in", mi, "-out", mo])
        for r, o in zip(mrecs, read_ndjson(mo)):
            chk.add("modfile_inputs")
            if o["result"] == "panic":
                chk.violation("TransformModFile panics on a manifest of the ModFile.tla universe: %s" % (o.get("msg") or "")[:160], {"entry": "TransformModFile", "text": r["text"], "result": o, "model_derived": True})
            elif r["rec"] == "broken" and o["result"] == "ok":
                chk.violation("TransformModFile accepts a text that is not YAML (the syntax error is not reported): %r" % r["text"][:80], {"entry": "TransformModFile", "text": r["text"], "result": o, "model_derived": True})
        log("e: %d fga.mod manifests of the ModFile.tla universe through TransformModFile" % len(mrecs))

        # ---- b. degenerate protobuf models
        deg = run_tlc("Degenerate", DEG_CFG % {"holes": 1 if tier == "quick" else 2}, sc, cache=True, timeout=3000)
        drecs = [r for r in deg.records if r["rec"] == "degenerate"]
        seen = set()
        uniq = []
        for r in drecs:
            k = (r["base"], json.dumps(sorted(map(json.dumps, r["holes"]))))
            if k not in seen:
                seen.add(k)
                uniq.append(r)
        inp, out = sc.path("c08b.in.ndjson"), sc.path("c08_outcomes.ndjson")
        write_ndjson(inp, uniq)
        run_harness(binary, ["c08-degenerate", "-in", inp, "-out", out])
        outs = read_ndjson(out)
        for o in outs:
            chk.add("degenerate_models")
            for entry, r in o["results"].items():
                if r == "hang":
                    chk.violation("%s does not return (20 s) on %s input %s of %d bytes" % (entry, "a token-mutated" if o["id"].startswith("T") else "a byte-mutated fixture", o["id"], o["len"]),
                                  {"entry": entry, "text": alltexts[o["id"]], "result": r, "model_derived": o["id"].startswith("T")})
                if r.startswith("panic"):
                    chk.violation("%s panics on a degenerate model (base %d, holes %s): %s" % (entry, o["base"], o["holes"], r[:200]), {"entry": entry, "base": o["base"], "holes": o["holes"], "result": r})
        # TLC validates the recorded outcomes against the totality claim (panic strings are mapped to "panic")
        write_ndjson(out, [{"id": o["id"], "results": {k: ("panic" if v.startswith("panic") else v) for k, v in o["results"].items()}} for o in outs])
        dv = run_tlc("Degenerate", DEG_VAL_CFG, sc, data_files={"c08_outcomes.ndjson": out}, timeout=3000)
        if bool(dv.violated) != any(v.startswith("panic") for o in outs for v in o["results"].values()):
            raise Infra("TLC's verdict on the recorded degenerate outcomes disagrees with the driver")
        log("  [%.0fs]" % (time.time() - chk.t0))
        log("b: %d degenerate models (TLC, %d states) through 6 model entry points; TotalOnDegenerateModels %s" % (len(uniq), deg.distinct, "holds" if not dv.violated else "VIOLATED"))
        states += deg.distinct + dv.distinct
        trans += deg.generated + dv.generated

        # ---- c. pumped families
        gen = run_tlc("Pump", PUMP_GEN_CFG, sc, cache=True)
        fams = [r for r in gen.records if r["rec"] == "family"]
        series = []
        quick_contexts = ("top", "relation", "condition", "bare", "restriction")
        for f in fams:
            ctx = f["family"].split(":")[0]
            if f["kind"] == "text" and tier == "quick" and ctx not in quick_contexts:
                continue
            for e in sorted(f["entries"]):
                if tier == "quick" and e in ("TransformModuleFilesToModel", "Validators"):
                    continue
                ns = [64, 128, 256] if tier == "quick" else [64, 128, 256, 512, 1024]
                if f["kind"] == "model":
                    ns = [8, 16, 32, 64, 128] if tier == "quick" else [8, 16, 32, 64, 128, 256, 512]
                if e == "Validators":
                    ns = [32, 64, 128, 256]
                series.append({"family": f["family"], "kind": f["kind"], "prefix": f["prefix"], "unit": f["unit"], "suffix": f["suffix"], "entry": e, "ns": ns})
        # one harness process per pumped unit (the parser caches what it learnt: families of one unit would warm each other up
        # less than families of different units, and a fresh process per unit keeps first encounters cold); text units run
        # in parallel (work = allocation counts, insensitive to load), the time-based model families alone afterwards
        from concurrent.futures import ThreadPoolExecutor
        groups = {}
        for sr in series:
            groups.setdefault(("model",) if sr["kind"] == "model" else ("text", sr["unit"]), []).append(sr)
        budget = "1500" if tier == "quick" else "6000"

        def run_group(item):
            k, (key, srs) = item
            gi, go = sc.path("pump.%d.in.ndjson" % k), sc.path("pump.%d.out.ndjson" % k)
            write_ndjson(gi, srs)
            run_harness(binary, ["c08-pump", "-in", gi, "-out", go, "-budget", budget], timeout=3400)
            return read_ndjson(go)
        text_groups = [(k, g) for k, g in enumerate(groups.items()) if g[0][0] == "text"]
        model_groups = [(k, g) for k, g in enumerate(groups.items()) if g[0][0] == "model"]
        pumped = []
        with ThreadPoolExecutor(max_workers=8) as ex:
            for r in ex.map(run_group, text_groups):
                pumped += r
        for item in model_groups:
            pumped += run_group(item)
        measured = []
        for o in pumped:
            pts = o["points"]
            name = "%s/%s" % (o["family"], o["entry"])
            for p in pts:
                if p["res"].startswith("panic"):
                    chk.violation("%s panics on pumped input %s (n=%d): %s" % (o["entry"], o["family"], p["n"], p["res"][:200]), {"family": o["family"], "unit": o["unit"], "n": p["n"], "entry": o["entry"]})
            hang = [p for p in pts if p["res"] == "hang"]
            if hang:
                what = "%s did not return within %d s on %s with n=%d (%d bytes)" % (o["entry"], hang[0]["us"] // 1000000, o["family"], hang[0]["n"], hang[0]["len"])
                if known_class(findings, o):
                    chk.known_finding(known_class(findings, o))
                else:
                    chk.violation(what, {"family": o["family"], "unit": o["unit"], "entry": o["entry"], "points": pts})
                continue
            if o["kind"] == "text":
                measured.append({"name": name, "unit": o["unit"], "family": o["family"], "entry": o["entry"], "minn": 64, "points": [{"n": p["n"], "work": max(1, p["mallocs"])} for p in pts]})
            else:
                # CPU-bound graph families: time, only where it is well above noise
                # (the clique of n relations is n*n long: doubling n quadruples the INPUT, and "quadratic in the input length" allows 16x per
                # doubling - the 4.8x rule, made for families that grow linearly in n, does not apply to its wall time outside the entry point
                # of finding D25; under load its printer series read 7.0 / 7.3 once, a false alarm at the thorough tier. Its allocation counts
                # stay judged.)
                if not (o["family"] == "clique" and not o["entry"].startswith("NewAuthorizationModelGraph")):
                    measured.append({"name": name, "unit": o["unit"], "family": o["family"], "entry": o["entry"], "minn": 8,
                                     "points": [{"n": p["n"], "work": max(1, p["minus"])} for p in timed_suffix(pts)]})
                measured.append({"name": name + "#allocs", "unit": o["unit"], "family": o["family"], "entry": o["entry"], "minn": 32, "points": [{"n": p["n"], "work": max(1, p["mallocs"])} for p in pts]})
        mf = sc.path("pump_measured.ndjson")
        write_ndjson(mf, measured)
        pv = run_tlc("Pump", PUMP_VAL_CFG, sc, data_files={"pump_measured.ndjson": mf}, keep_raw=True)
        bad = []
        for m in measured:
            p = m["points"]
            for i in range(len(p) - 2):
                if p[i]["n"] >= m["minn"] and p[i + 1]["work"] * 10 >= 48 * p[i]["work"] and p[i + 2]["work"] * 10 >= 48 * p[i + 1]["work"]:
                    bad.append(m)
                    break
        if bool(bad) != bool(pv.violated):
            raise Infra("TLC's verdict on the recorded growth measurements (%s) disagrees with the driver (%d families)" % (pv.violated, len(bad)))
        for m in bad:
            ratios = [round(m["points"][i + 1]["work"] / m["points"][i]["work"], 2) for i in range(len(m["points"]) - 1)]
            what = "work of %s grows faster than quadratically on family %s (unit %r): ratios per doubling %s" % (m["entry"], m["family"], m["unit"], ratios)
            if known_class(findings, m):
                chk.known_finding(known_class(findings, m))
            else:
                chk.violation(what, {"family": m["family"], "unit": m["unit"], "entry": m["entry"], "points": m["points"]})
        # margins (recorded, not judged): the largest per-doubling ratio in the judged window, per kind of measurement
        def maxratio(ms):
            best = (0, "")
            for m in ms:
                p = [q for q in m["points"] if q["n"] >= m["minn"]]
                for i in range(len(p) - 1):
                    r = p[i + 1]["work"] / p[i]["work"]
                    if r > best[0] and m not in bad:
                        best = (round(r, 2), m["name"])
            return best
        timed = [m for m in measured if "#allocs" not in m["name"] and m["minn"] == 8]
        chk.notes.append("largest per-doubling ratio outside the reported series: allocation counts %s, wall time %s (violation needs two consecutive ratios >= 4.8)"
                         % (maxratio([m for m in measured if m not in timed]), maxratio(timed)))
        log("  " + chk.notes[-1])
        log("  [%.0fs]" % (time.time() - chk.t0))
        log("c: %d measurement series over %d pumped families; WorkWithinQuadratic %s" % (len(measured), len(fams), "holds" if not bad else "fails for %d series" % len(bad)))
        states += gen.distinct + pv.distinct
        trans += gen.generated + pv.generated
        for f in findings:
            if f["id"] in ("D15", "D25"):
                if chk.known.get(f["id"]):
                    log("KNOWN-FINDING: property=%s %s: %s" % (pid, f["id"], f["what"]))
                else:
                    log("note: listed finding %s no longer reproduces" % f["id"])
        chk.cov.update(evaluations=chk.cov.get("text_inputs", 0) * 9 + chk.cov.get("degenerate_models", 0) * 6 + sum(len(m["points"]) for m in measured),
                       distinct_nontrivial=len(set(alltexts.values())) + len(uniq) + len(measured),
                       rule="a: valid token streams of the layout specification with 1 (exhaustive on a block of documents) or 2 (sampled) token edits, rendered by TLC; b: 3 base models x sets of <= %d of 120 "
                            "holes; c: %d separator / lexeme units x grammatical contexts + 6 model families, work measured for doubling n; d (auxiliary, not model-derived): seeded byte mutations "
                            "of the fixture corpus; distinct by text / hole set / series" % (1 if tier == "quick" else 2, 49),
                       states=states, transitions=trans, model_derived_inputs=len(texts) + len(uniq), auxiliary_inputs=len(aux))
        chk.sample({"token_mutated": list(texts.values())[5][:300]})
        chk.sample({"degenerate": uniq[3]})
        chk.sample({"growth": measured[0]})
        chk.assumptions += ["arbitrary byte strings far (in edit distance) from any sentence are only sampled (auxiliary part d); this family of technique gives no coverage guidance there",
                            "the complexity clause is a measurement: heap allocations of one call (exact) for text families, wall time above 5 ms for the CPU-bound graph families, "
                            "violation only when two consecutive doublings exceed 4.8x (quadratic growth stays below 4x)"]
        return chk.finish()
    finally:
        sc.cleanup()


def timed_suffix(pts):
    """the longest run of consecutive doublings at the end of a series in which every call took at least 5 ms (below that, wall
    time is noise); consecutive, so that every ratio the growth bound looks at is a ratio per ONE doubling"""
    k = len(pts)
    while k > 0 and pts[k - 1]["minus"] >= 5000:
        k -= 1
    return pts[k:]


def known_class(findings, m):
    """class predicates: D15 - the pumped unit contains a form feed and the entry point lexes DSL text; D25 - the family is the clique
    of relations and the entry point is the plain graph (GetCycles enumerates elementary cycles). Returns the finding id or None."""
    ids = {f["id"] for f in findings}
    if "D15" in ids and "\f" in m.get("unit", "") and m["entry"] in ("TransformDSLToProto", "TransformModuleFilesToModel", "TransformDSLToJSON", "TransformModularDSLToProto"):
        return "D15"
    if "D25" in ids and m.get("family") == "clique" and m["entry"].startswith("NewAuthorizationModelGraph"):
        return "D25"
    return None


def replay(pid, path):
    r = json.load(open(path))
    chk = Check(pid, "quick", "exploration")
    sc = Scratch()
    try:
        binary = build_harness(sc)
        if "text" in r:
            inp, out = sc.path("r.in.ndjson"), sc.path("r.out.ndjson")
            write_ndjson(inp, [{"id": "R", "text": r["text"]}])
            run_harness(binary, ["c08-text", "-in", inp, "-out", out])
            for entry, res in read_ndjson(out)[0]["results"].items():
                if res.startswith("panic"):
                    chk.violation("still: %s panics: %s" % (entry, res[:200]), r)
                if r.get("expected") == "error" and entry == r.get("entry") and res == "ok":
                    chk.violation("still: %s returns no error" % entry, r)
        elif "holes" in r:
            inp, out = sc.path("r.in.ndjson"), sc.path("r.out.ndjson")
            write_ndjson(inp, [{"base": r["base"], "holes": r["holes"]}])
            run_harness(binary, ["c08-degenerate", "-in", inp, "-out", out])
            for entry, res in read_ndjson(out)[0]["results"].items():
                if res.startswith("panic"):
                    chk.violation("still: %s panics: %s" % (entry, res[:200]), r)
        else:
            log("growth replays re-run the quick check")
            return run(pid, "quick")
        log("replay of %s: %s" % (path, "still violates" if chk.violations else "no violation"))
        return 1 if chk.violations else 0
    finally:
        sc.cleanup()
