"""C01, C02, C03, C09, C14, C16 - the DSL.  Specifications: spec/Dsl.tla (printer, expressibility, normal form),
spec/DslLayout.tla (grammar-driven layouts, violation catalogue, positions), universes in DslMC / DslLayoutMC.

RP : TLC generates abstract models / documents with the expected outcome computed from the specification (printed text,
     Expressible, Norm, the model a layout was written from, the position of every lexeme); the harness runs the real
     transformers and the driver compares structurally.
"""
import json
import re

from vlib import *

NEST_ERR = "is not supported by the OpenFGA DSL syntax yet"


def clean_model(m, with_schema=True):
    """projection used when comparing parsed models: names, rewrites, restrictions, conditions (expressions modulo outer whitespace)"""
    if not m:
        return None
    return {"schema": (m.get("schema") or "") if with_schema else None,
            "types": [{"name": t["name"], "rels": [{"name": x["name"], "rw": x["rw"], "restr": x.get("restr") or []} for x in t.get("rels") or []]} for t in m.get("types") or []],
            "conds": [{"name": c["name"], "expr": c["expr"].strip(), "params": c.get("params") or []} for c in m.get("conds") or []]}


TREES_CFG = """INIT TreesInit
NEXT TreesNext
CONSTANTS
  W1 = %(w1)d
  W2 = %(w2)d
  Deep = %(deep)s
  TypeAttrs = {1}
  RelAttrs = {1}
  CondAttrs = {1}
INVARIANT TreesOK
CHECK_DEADLOCK FALSE
"""
ATTR_CFG = """INIT AttrInit
NEXT AttrNext
CONSTANTS
  W1 = 1
  W2 = 1
  Deep = FALSE
  TypeAttrs = %(ta)s
  RelAttrs = %(ra)s
  CondAttrs = %(ca)s
INVARIANT AttrOK
CHECK_DEADLOCK FALSE
"""


def run_print(binary, sc, recs, tag, variants=0):
    inp, out = sc.path(tag + ".in.ndjson"), sc.path(tag + ".out.ndjson")
    write_ndjson(inp, [{"id": r["id"], "rec": r["rec"], "m": r["m"]} for r in recs])
    run_harness(binary, ["dsl-print", "-in", inp, "-out", out, "-seed", str(SEED), "-variants", str(variants)])
    obs = {o["id"]: o for o in read_ndjson(out)}
    if len(obs) != len(recs):
        raise Infra("dsl-print returned %d observations for %d records" % (len(obs), len(recs)))
    return obs


# ------------------------------------------------------------------------------------------------ C02

KNOWN_IDS = set()


def judge_c02(chk, r, o):
    rep = {"id": r["id"], "m": r["m"], "spec": {k: r[k] for k in ("expressible", "print")}, "observed": {k: o[k] for k in ("proto", "json")}}
    for api in ("proto", "json"):
        p = o[api]
        if p.get("panic"):
            chk.violation("printer panicked (%s API) on tree %s: %s" % (api, r["id"], p["panic"]), rep)
            return
        if p["ok"] != r["expressible"]:
            chk.violation("tree %s: conversion %s through the %s API but the model is %s" % (
                r["id"], "succeeds" if p["ok"] else "fails (%s)" % p.get("err"), api, "DSL-expressible" if r["expressible"] else "not DSL-expressible"), rep)
            return
        if not p["ok"] and NEST_ERR not in (p.get("err") or ""):
            chk.violation("tree %s: not expressible, but the error is not the unsupported-nesting one: %s" % (r["id"], p.get("err")), rep)
            return
    if not r["expressible"]:
        return
    if o["json"]["text"] != o["proto"]["text"]:
        chk.violation("tree %s: JSON-string API and protobuf API print different DSL" % r["id"], rep)
        return
    ps = o.get("proto_shared")
    if ps is not None and (not ps["ok"] or ps["text"] != o["proto"]["text"]):
        chk.violation("tree %s: the same model with structurally equal rewrite subtrees shared (one message value in several places) %s" % (
            r["id"], "prints different DSL" if ps["ok"] else "is refused: %s" % (ps.get("err") or ps.get("panic"))), dict(rep, shared=ps))
        return
    rp = o["reparse"]
    if not rp["ok"]:
        # finding D20: class predicate (a parameter of type `any`) AND the output is exactly what the Impl layer predicts AND D20 is listed as known
        anyparam = any("TYPE_NAME_ANY" in (p["ty"], p["elem"]) for c in r["m"]["conds"] for p in c["params"])
        if anyparam and o["proto"]["text"] == r["print"] and "D20" in KNOWN_IDS:
            chk.known_finding("D20")
            return
        chk.violation("tree %s: the produced DSL does not parse: %s" % (r["id"], rp.get("errs") or rp.get("panic")), dict(rep, dsl=o["proto"]["text"]))
        return
    got_m, want_m = clean_model(rp["m"]), clean_model(r["norm"])
    if r.get("modular"):
        # a model in which some type carries a module is printed in the canonical order of C14 (module, file, name): the order of its
        # type definitions is not the input's; everywhere else it is
        got_m, want_m = dict(got_m, types=sorted(got_m["types"], key=lambda t: t["name"])), dict(want_m, types=sorted(want_m["types"], key=lambda t: t["name"]))
    if got_m != want_m:
        chk.violation("tree %s: parsing the produced DSL does not give back the model (up to the stated normalisation)" % r["id"],
                      dict(rep, dsl=o["proto"]["text"], reparsed=clean_model(rp["m"]), expected=clean_model(r["norm"])))
        return
    if o["proto"]["text"] != r["print"]:
        # the property is decided by the reparse above; a different but equivalent text is drift of the Impl layer
        chk.drift.append({"tree": r["id"], "real": o["proto"]["text"][-120:], "spec": r["print"][-120:]})
    key = "doc#x"
    if r["assignable"] is not None and o["assignable"].get(key) != r["assignable"]:
        chk.violation("tree %s: IsRelationAssignable = %s but the tree %s a direct assignment" % (r["id"], o["assignable"].get(key), "has" if r["assignable"] else "has no"), rep)


def run_c02(chk, binary, sc, tier):
    w1, w2, deep = (3, 2, "FALSE") if tier == "quick" else (3, 2, "TRUE")
    res = run_tlc("DslMC", TREES_CFG % {"w1": w1, "w2": w2, "deep": deep}, sc, cache=True, timeout=3000)
    if res.violated:
        raise Infra("TreesOK (ExpressibleIffPrintable / AssignableIffBracket) violated on spec/Dsl.tla:\n" + res.tail[-1500:])
    recs = res.records
    log("TLC: %d rewrite trees (depth <= 2, direct assignment anywhere), ExpressibleIffPrintable holds on the Impl printer, %.0fs%s" % (len(recs), res.wall, " (cached)" if res.cached else ""))
    obs = run_print(binary, sc, recs, "trees")
    KNOWN_IDS.clear()
    KNOWN_IDS.update(f["id"] for f in load_findings() if f["status"] == "known" and chk.pid in f["properties"])
    for r in recs:
        judge_c02(chk, r, obs[r["id"]])
    # ... and models with module / file attribution on some of their relations and conditions while the types carry none (and the other
    # way round): "gives back the input model" includes the order of the type definitions wherever C14 does not prescribe another one
    att = run_tlc("DslMC", ATTR_CFG % {"ta": "{1,2}", "ra": "{1,2}", "ca": "{1,3}"}, sc, cache=True, timeout=3000)
    arecs = [{"id": r["id"], "rec": "tree", "m": r["m"], "expressible": True, "accepts": True, "print": r["plain"], "norm": r["norm"], "assignable": None,
              "modular": any(t.get("module") for t in r["m"]["types"])} for r in att.records]
    aobs = run_print(binary, sc, arecs, "trees")
    for r in arecs:
        judge_c02(chk, r, aobs[r["id"]])
    recs = recs + arecs
    for f in load_findings():
        if f["id"] == "D20" and f["status"] == "known" and chk.pid in f["properties"]:
            if chk.known.get("D20"):
                log("KNOWN-FINDING: property=%s D20: %s" % (chk.pid, f["what"]))
            else:
                log("note: listed finding D20 no longer reproduces")
    chk.cov.update(states=res.distinct, transitions=res.generated, traces_validated_against_impl=len(recs) - len(chk.drift),
                   evaluations=len(recs) * 2, distinct_nontrivial=len([r for r in recs if len(r["id"]) > 1]), exhaustive=True,
                   expressible=len([r for r in recs if r["expressible"]]),
                   rule="every rewrite tree of depth <= 2 (width <= %d at depth 1, <= %d at depth 2%s) over the leaves this / computed / tuple-to-userset, single-child operators included, "
                        "wrapped into a model with rotating restriction lists (wildcards, usersets, conditions); non-trivial = not a bare leaf" % (w1, w2, ", full depth-1 set" if deep == "TRUE" else ", depth-1 operands with <= 2 children"))
    for r in recs[:1] + recs[len(recs) // 2:len(recs) // 2 + 2]:
        chk.sample({"tree": r["id"], "expressible": r["expressible"], "print": r["print"][-100:]})
    chk.assumptions += ["domain: operators have >= 1 child, exclusions both operands (degenerate protobuf models belong to C08)"]


# ------------------------------------------------------------------------------------------------ C14

def strip_comments(text):
    out = []
    for line in text.split("\n"):
        if len(line.lstrip(" ")) == 0:
            out.append("")
        elif line.lstrip(" ")[0] == "#":
            out.append("")
        else:
            out.append(line.split(" #")[0].rstrip(" "))
    return "\n".join(out)


def judge_c14(chk, r, o):
    rep = {"id": r["id"], "m": r["m"], "spec_plain": r["plain"], "spec_src": r["src"]}
    for k in ("proto", "proto_src", "json"):
        if not o[k]["ok"]:
            chk.violation("printer fails on an attributed model (%s): %s" % (k, o[k].get("err") or o[k].get("panic")), rep)
            return
    if len(o["variants"]) > 1 or (o["variants"] and o["variants"][0] != o["proto"]["text"]):
        chk.violation("DSL output is not a function of the model content: %d different outputs over %d encodings / type orders / repetitions" % (
            len(set(o["variants"]) | {o["proto"]["text"]}), o["nvariants"]), dict(rep, outputs=o["variants"][:3], first=o["proto"]["text"]))
        return
    if len(o["variants_src"]) > 1 or (o["variants_src"] and o["variants_src"][0] != o["proto_src"]["text"]):
        chk.violation("source-info DSL output varies over encodings / type orders / repetitions", dict(rep, outputs=o["variants_src"][:3]))
        return
    if o["proto"]["text"] != r["plain"]:
        chk.violation("order of types / relations / conditions / parameters is not the documented one", dict(rep, real=o["proto"]["text"]))
        return
    if o["proto_src"]["text"] != r["src"]:
        chk.violation("source-info output differs from the documented form", dict(rep, real=o["proto_src"]["text"]))
        return
    if strip_comments(o["proto_src"]["text"]) != o["proto"]["text"]:
        chk.violation("stripping the comments of the source-info output does not give the plain output", dict(rep, real_src=o["proto_src"]["text"], real=o["proto"]["text"]))
        return
    a, b = o["reparse"], o["reparse_src"]
    if not a["ok"] or not b["ok"]:
        chk.violation("printed DSL does not parse: plain %s / source-info %s" % (a.get("errs"), b.get("errs")), dict(rep, real_src=o["proto_src"]["text"]))
    elif clean_model(a["m"]) != clean_model(b["m"]):
        chk.violation("plain and source-info output parse to different models", rep)
    elif sorted(json.dumps(t, sort_keys=True) for t in clean_model(a["m"])["types"]) != sorted(json.dumps(t, sort_keys=True) for t in clean_model(r["norm"])["types"]) \
            or clean_model(a["m"])["conds"] != clean_model(r["norm"])["conds"]:
        chk.violation("printed DSL parses to a different model than the one printed", dict(rep, reparsed=clean_model(a["m"]), expected=clean_model(r["norm"])))


def run_c14(chk, binary, sc, tier):
    ta, ra, ca = ("{1,2,3,5,6}", "{1,2,8}", "{1,3,9}") if tier == "quick" else ("{1,2,3,5,6,8}", "{1,2,7,8}", "{1,3,6,9}")      # 36 x 64 x 16 = 36,864 models (the full pool product - 790k - does not finish)
    res = run_tlc("DslMC", ATTR_CFG % {"ta": ta, "ra": ra, "ca": ca}, sc, cache=True, timeout=3000)
    if res.violated:
        raise Infra("AttrOK (SourceCommentsInert) violated on spec/Dsl.tla:\n" + res.tail[-1500:])
    recs = res.records
    log("TLC: %d attributed models (module/file of every type, relation, condition), SourceCommentsInert holds on the Impl printer, %.0fs%s" % (len(recs), res.wall, " (cached)" if res.cached else ""))
    obs = run_print(binary, sc, recs, "attr", variants=4 if tier == "quick" else 10)
    n = 0
    for r in recs:
        judge_c14(chk, r, obs[r["id"]])
        n += obs[r["id"]]["nvariants"] * 3 + 3
    chk.cov.update(states=res.distinct, transitions=res.generated, traces_validated_against_impl=len(recs), evaluations=n,
                   distinct_nontrivial=len([r for r in recs if r["modular"]]), exhaustive=True,
                   rule="a model of 2 types / 3 relations / 2 conditions with every combination of (module, file) attribution from a pool incl. empty module with file, file names with "
                        "blank, '#', ', file:', a line break; each printed from 4-10 shuffled JSON key orders x permuted type definitions x 3 repetitions x both option values; non-trivial = modular")
    for r in recs[:1] + recs[-1:]:
        chk.sample({"id": r["id"], "src_output": r["src"]})
    chk.assumptions += ["type definitions are permuted only for modular models (the statement limits that clause to them)"]


# ------------------------------------------------------------------------------------------------ layouts: C01 C03 C09 C16

LAYOUT_CFG = """SPECIFICATION Spec
CONSTANTS
  JobAt <- TJobAt
  NumJobs <- TNumJobs
CHECK_DEADLOCK FALSE
"""
LAYOUT_DEFS = 'Jobs == ndJsonDeserialize("layout_jobs.ndjson")\nTJobAt(i) == Jobs[i]\nTNumJobs == Len(Jobs)'
BASE_STYLE = {"ws": " ", "ows": "", "eol": "\n", "ind": "  ", "blank": 0, "cmt": 0, "trail": "", "multi": False, "lead": "", "fin": "\n"}
STYLE_SPACE = {"ws": [" ", "\t", "   "], "ows": ["", " "], "eol": ["\n", "\r\n"], "ind": ["  ", "\t", "", "      "], "blank": [0, 1, 2], "cmt": [0, 1],
               "trail": ["", " # t", "   ", " # see #12 # more", "\t", " \t "], "multi": [False, True], "lead": ["", "\n", "  \n\n", "# hdr\n", "  # a\n  # b\n"], "fin": ["", "\n", "\n\n"]}
NVIOL = 14


def layout_jobs(tier, want_valid, want_invalid):
    """The exploration schedule: which (document, violation, style, overrides) combinations TLC renders. Exhaustive over single
    style dimensions and single overrides on a block of documents, seeded random mixtures beyond."""
    import random
    rng = random.Random(SEED)
    scale = 2 if tier == "quick" else 12
    jobs = []

    def job(doc, viol=0, vsite=0, style=None, ov=()):
        jobs.append({"id": "L%d" % len(jobs), "doc": doc, "viol": viol, "vsite": vsite, "style": dict(style or BASE_STYLE), "ov": [list(x) for x in ov]})

    def rstyle():
        st = {k: rng.choice(v) for k, v in STYLE_SPACE.items()}
        st["cind"] = rng.choice([0, 1, 1])
        return st

    if want_valid:
        for d in range(90 * scale):                                   # every document in the base style
            job(d)
        for k, vals in STYLE_SPACE.items():                           # every single style dimension on a block of documents
            for v in vals:
                if v != BASE_STYLE[k]:
                    for d in range(27):
                        job(d, style=dict(BASE_STYLE, **{k: v}))
        for d in range(9 * scale):                                    # every single local override
            for site in range(40):
                for alt in range(11):
                    job(d, ov=[(site, alt)])
        for k in range(6):                                            # every keyword the grammar admits as identifier, in every identifier position
            for role in range(30):
                jobs.append({"id": "L%d" % len(jobs), "doc": 0, "kw": [k, role], "viol": 0, "vsite": 0, "style": dict(BASE_STYLE), "ov": []})
        for i in range(16):                                           # names that split in two ways between type and relation (dotted / slashed / dashed / underscored)
            jobs.append({"id": "L%d" % len(jobs), "doc": 0, "dot": i, "viol": 0, "vsite": 0, "style": dict(BASE_STYLE), "ov": []})
            jobs.append({"id": "L%d" % len(jobs), "doc": 0, "dot": i, "viol": 0, "vsite": 0, "style": rstyle(), "ov": []})
        for i in range(4 + 160 + 4 + 8):                                  # documents off the family: no types, empty condition bodies, wide operator lists before a group, extend + declare, deep nesting
            if i < 4 or i >= 164 or tier != "quick" or (i - 4) % 80 < 40 or i % 3 == 0:
                jobs.append({"id": "L%d" % len(jobs), "doc": 0, "special": i, "viol": 0, "vsite": 0, "style": dict(BASE_STYLE) if i % 2 == 0 or i < 4 else rstyle(), "ov": []})
        for d in range(27):                                           # full-line comments in column 0 at every line break, whatever the depth
            job(d, style=dict(BASE_STYLE, cmt=1, cind=0))
            job(d, style=dict(BASE_STYLE, cmt=1, cind=0, multi=True, ind="\t"))
        for d in (0, 3, 6):                                           # full-line comments longer than 64 KiB at every line break
            job(d, style=dict(BASE_STYLE, cmt=1, pad=1))
        # a document whose canonical rendering has a line longer than 64 KiB although its own lines are short
        jobs.append({"id": "L%d" % len(jobs), "doc": 0, "wide": 1, "viol": 0, "vsite": 0, "style": dict(BASE_STYLE, multi=True), "ov": []})
        jobs.append({"id": "L%d" % len(jobs), "doc": 0, "wide": 1, "viol": 0, "vsite": 0, "style": dict(BASE_STYLE), "ov": []})
        for _ in range(1500 * scale):                                 # random mixtures: any style, up to two overrides
            job(rng.randrange(0, 2000), style=rstyle(), ov=[(rng.randrange(0, 200), rng.randrange(0, 10)) for _ in range(rng.choice([0, 1, 2]))])
    if want_invalid:
        for v in range(1, NVIOL + 1):
            for site in range(24 * scale):
                for d in range(9):
                    job(d, viol=v, vsite=site)
            for site in range(12 * scale):                            # ... with restriction lists and condition bodies spread over several lines
                for d in range(3):
                    job(d, viol=v, vsite=site, style=dict(BASE_STYLE, multi=True))
            for site in range(30):                                    # ... with one separator overridden (alternative 8 of a line break: a bare carriage return)
                job(site % 3, viol=v, vsite=site // 3, ov=[(site, 8)])
                job(site % 3, viol=v, vsite=site // 3, ov=[(site, 9)])       # ... a trailing comment ended by a bare carriage return
                job((site + 1) % 3, viol=v, vsite=site // 3, ov=[(site, 10)])
            for site in range(4):                                     # ... behind a full-line comment longer than 64 KiB
                job(site % 3 * 3, viol=v, vsite=site * 5, style=dict(BASE_STYLE, cmt=1, pad=1))
            for _ in range(80 * scale):                               # the same violations under random layouts (comments / blank lines around the site)
                job(rng.randrange(0, 500), viol=v, vsite=rng.randrange(0, 500), style=rstyle())
    return jobs


def run_layouts(chk, binary, sc, tier, want_valid, want_invalid, chain, nonascii=False):
    jobs = layout_jobs(tier, want_valid, want_invalid)
    jf = sc.path("layout_jobs.ndjson")
    write_ndjson(jf, jobs)
    res = run_tlc("DslLayoutMC", LAYOUT_CFG, sc, data_files={"layout_jobs.ndjson": jf}, defs=LAYOUT_DEFS, timeout=3000, cache=True)
    recs = {r["id"]: r for r in res.records}
    if len(recs) != len(jobs):
        raise Infra("TLC rendered %d of %d layout jobs\n%s" % (len(recs), len(jobs), res.tail[-1500:]))
    if nonascii:
        # every second document that has the string literal "a b" in a condition carries characters of 2 and 3 UTF-8 bytes there instead
        # (same number of characters: positions, which count characters, are unchanged; byte offsets are not)
        for k, r in enumerate(recs.values()):
            if k % 2 == 0 and '"a b"' in r["text"]:
                r["text"] = r["text"].replace('"a b"', '"\u00fc\u2013\u65e5"')
                for cnd in (r.get("m") or {}).get("conds") or []:
                    cnd["expr"] = cnd["expr"].replace('"a b"', '"\u00fc\u2013\u65e5"')
                chk.add("documents_with_multibyte_characters")
    # a comment that a bare carriage return ends may hold characters of several bytes (every second such document): what follows the
    # carriage return is on the same line for positions, which count characters (one character replaces one)
    for k, r in enumerate(recs.values()):
        if k % 2 == 1 and (" # t\r" in r["text"] or "# full\r" in r["text"]):
            r["text"] = r["text"].replace(" # t\r", " # \u00fc\r").replace("# full\r", "# f\u65e5ll\r")
            chk.add("documents_with_multibyte_characters")
    inp, out = sc.path("lay.in.ndjson"), sc.path("lay.out.ndjson")
    write_ndjson(inp, [{"id": r["id"], "text": r["text"], "modular": r["modular"]} for r in recs.values()])
    run_harness(binary, ["dsl-parse", "-in", inp, "-out", out] + (["-chain"] if chain else []))
    obs = {o["id"]: o for o in read_ndjson(out)}
    if len(obs) != len(recs):
        raise Infra("dsl-parse returned %d observations for %d documents" % (len(obs), len(recs)))
    log("TLC rendered %d documents (%d states, %.0fs); real parser ran on all of them" % (len(recs), res.distinct, res.wall))
    chk.cov.update(states=res.distinct, transitions=res.generated)
    return jobs, recs, obs


LEXER_CFG = """SPECIFICATION Spec
CHECK_DEADLOCK FALSE
INVARIANTS TokenOK AllTokens ErrorsCounted
"""


def lexer_corpus():
    import lexcorpus
    return lexcorpus.lexer_corpus(REPO)


def lexer_validate(chk, binary, sc, docs, what, verdict=False):
    """The lexer half of the binding: every token the real lexer produced (hook VerifTokens) for every document is the token the lexer
    automaton of spec/Lexer.tla - the comment pre-pass followed by the rules of OpenFGALexer.g4 - holds at that step; where the automaton
    finds a character no rule accepts, the run reported a token recognition error. ASCII documents only (TLC's strings, DESIGN II.3)."""
    docs = [d for d in docs if all(0 < ord(c) < 128 for c in d["text"])]
    if not docs:
        log("lexer traces (%s): no document to record" % what)
        return True
    inp, out = sc.path("lex.in.ndjson"), sc.path("lexer_docs.ndjson")
    write_ndjson(inp, [{"id": d["id"], "text": d["text"]} for d in docs])
    run_harness(binary, ["lexer-record", "-in", inp, "-out", out])
    recs = read_ndjson(out)
    if not recs or not any(r["tokens"] for r in recs):
        raise Infra("the token hook recorded nothing (hook removed or not compiled in?)")
    res = run_tlc("Lexer", LEXER_CFG, sc, data_files={"lexer_docs.ndjson": out}, timeout=3000, tolerate_errors=True)
    ntok = sum(len(r["tokens"]) for r in recs)
    if res.violated:
        rec = {"lexer": "TLC rejects a recorded token trace (%s): %s" % (what, res.violated), "detail": res.tail[-1800:]}
        if verdict:
            chk.violation("the Go lexer does not produce the tokens OpenFGALexer.g4 describes (%s): %s" % (what, res.violated), rec)
        else:
            chk.drift.append(rec)
        log("lexer traces (%s): %d documents / %d tokens, REJECTED by the lexer automaton (%s)%s" % (what, len(recs), ntok, res.violated, "" if verdict else " - drift, not a verdict"))
    else:
        log("lexer traces (%s): %d documents / %d tokens validated by TLC against the lexer automaton of spec/Lexer.tla (%d states, %.0fs)" % (what, len(recs), ntok, res.distinct, res.wall))
        chk.add("lexer_tokens_validated", ntok)
    return not res.violated


LISTENER_CFG = """SPECIFICATION Spec
CHECK_DEADLOCK FALSE
INVARIANTS PostStateOK ResultOK NotStuck
"""


def listener_validate(chk, binary, sc, recs, limit):
    """Impl binding of the parser: the events the verif hook emits at the relation-level listener callbacks (callback, arguments,
    state projection after it) are validated by TLC against the listener automaton of spec/DslListener.tla. A rejected trace
    is DRIFT of the Impl layer (reported), the verdict of the properties comes from the Ideal comparison."""
    docs = [{"id": r["id"], "text": r["text"], "modular": r["modular"]} for r in list(recs.values())[:limit] if r["valid"]]
    inp, out = sc.path("lst.in.ndjson"), sc.path("listener_traces.ndjson")
    write_ndjson(inp, docs)
    run_harness(binary, ["listener-record", "-in", inp, "-out", out])
    traces = read_ndjson(out)
    if not traces:
        raise Infra("the listener hook recorded no trace (hook removed or not compiled in?)")
    res = run_tlc("DslListener", LISTENER_CFG, sc, data_files={"listener_traces.ndjson": out}, timeout=3000, tolerate_errors=True)
    events = sum(len(t["events"]) for t in traces)
    if res.violated:
        chk.drift.append({"listener": "TLC rejects a recorded listener trace: %s" % res.violated, "detail": res.tail[-600:]})
        log("listener traces: %d traces / %d events, REJECTED by the Impl automaton (%s) - drift, not a verdict" % (len(traces), events, res.violated))
    else:
        log("listener traces: %d relation declarations / %d hook events validated by TLC against the listener automaton (%d states)" % (len(traces), events, res.distinct))
        chk.add("listener_traces_validated", len(traces))
        chk.add("listener_events_validated", events)
    chk.cov["states"] = chk.cov.get("states", 0) + res.distinct
    chk.cov["transitions"] = chk.cov.get("transitions", 0) + res.generated
    return len(traces) if not res.violated else 0


DOC_TRACE_CFG = """SPECIFICATION DSpec
CONSTANTS
  JobAt <- TJobAt
  NumJobs = 0
  Mode = "trace"
  DocJobAt <- TJobAt
  NumDocJobs = 0
CHECK_DEADLOCK FALSE
INVARIANTS PostStateOK NotStuck PanicOK ResultTypesOK ResultCondsOK ResultExtsOK ResultErrsOK WalkOK
"""
DOC_MC_CFG = """SPECIFICATION DSpec
CONSTANTS
  JobAt <- TJobAt
  NumJobs = 0
  Mode = "mc"
  DocJobAt <- TDocJobAt
  NumDocJobs <- TNumDocJobs
CHECK_DEADLOCK FALSE
INVARIANTS NeverPanics TypeOK ValidDocYieldsModelWritten ViolationRaisesItsError NotStuck
"""


def doc_model_check(chk, sc, tier):
    """Design level: the whole-listener automaton of spec/DslDoc.tla, driven by the callback sequences spec/DslWalk.tla derives from the
    grammar, yields the model written for every valid document of the universe (Impl refines Ideal, C03) and raises its error for every
    violation of the catalogue the listener has to catch (C09). No real code is involved: a failure here is a defect of the specification."""
    ndocs = 600 if tier == "quick" else 2000
    nsites = 24 if tier == "quick" else 120
    defs = ("TJobAt(i) == <<>>\nTNumDocJobs == %d\n"
            "TDocJobAt(i) == IF i <= %d THEN [doc |-> i - 1, viol |-> 0, vsite |-> 0]\n"
            "                ELSE LET k == i - %d - 1 IN [doc |-> k %% 9, viol |-> 5 + ((k \\div 9) %% 5), vsite |-> k \\div 45]"
            % (ndocs + 45 * nsites, ndocs, ndocs))
    res = run_tlc("DslDoc", DOC_MC_CFG, sc, defs=defs, timeout=3000, cache=True)
    if res.violated:
        raise Infra("design-level failure of spec/DslDoc.tla (%s): the listener automaton does not refine ModelOf on the document universe\n%s" % (res.violated, res.tail[-1500:]))
    log("DslDoc (mc): %d valid documents and %d listener-level violations walked through the listener automaton, %d states, invariants hold%s"
        % (ndocs, 45 * nsites, res.distinct, " (cached)" if res.cached else ""))
    chk.add("doc_automaton_states", res.distinct)
    chk.cov["states"] = chk.cov.get("states", 0) + res.distinct
    chk.cov["transitions"] = chk.cov.get("transitions", 0) + res.generated


def _ascii(o):
    if isinstance(o, str):
        return o if o.isascii() else "".join(c if ord(c) < 128 else "\\u{%04x}" % ord(c) for c in o)
    if isinstance(o, list):
        return [_ascii(x) for x in o]
    if isinstance(o, dict):
        return {k: _ascii(v) for k, v in o.items()}
    return o


def layout_docs(jobs, recs):
    docs = []
    for j in jobs:
        r = recs[j["id"]]
        src = ["none", 0, 0]
        if r["valid"]:
            src = ["special", j["special"], 0] if "special" in j else ["kw", j["kw"][0], j["kw"][1]] if "kw" in j else ["wide", 0, 0] if "wide" in j else ["dot", j["dot"], 0] if "dot" in j else ["doc", j["doc"], 0]
        if "wide" in j or j["style"].get("pad"):
            continue        # (100 KiB lines: nothing new for the listener, slow to ship through JSON)
        docs.append({"id": r["id"], "text": r["text"], "modular": r["modular"], "src": src})
    return docs


def doc_validate(chk, binary, sc, docs, tag, corrupt=None):
    """Impl binding of the parser, whole document: every listener callback of the real parse (verif hook VerifDocTrace: what the callback
    read from its context + projection of the listener state after it) is validated by TLC against the automaton of spec/DslDoc.tla:
    PostStateOK after every event, NotStuck, PanicOK, Result{Types,Conds,Exts,Errs}OK (accumulated model, extension names, listener-raised errors with
    message and position) and, for valid documents (src), WalkOK (the callback sequence is the one spec/DslWalk.tla derives from the grammar).
    A rejected trace is DRIFT of the Impl layer (reported); the verdict of the properties comes from the Ideal comparison."""
    if not docs:            # (an earlier stage withheld every document, e.g. after calls that did not return)
        log("document traces (%s): no document to record" % tag)
        return 0
    inp, tmp, out = sc.path("doc.in.ndjson"), sc.path("doc.tmp.ndjson"), sc.path("doc_traces.ndjson")
    write_ndjson(inp, [{"id": d["id"], "text": d["text"], "modular": False} for d in docs])
    run_harness(binary, ["doc-record", "-in", inp, "-out", tmp])
    traces = read_ndjson(tmp)
    if len(traces) != len(docs) or not any(t["events"] for t in traces):
        raise Infra("the document hook recorded %d traces for %d documents (hook removed or not compiled in?)" % (len(traces), len(docs)))
    for t, d in zip(traces, docs):
        t["src"] = d["src"]
    if corrupt:
        corrupt(traces)       # (bin/selftest: one recorded field changed)
    # TLC interns strings; beyond ASCII that is unreliable (SubSeq of a string holding U+0BE7 gave a string that prints the same and
    # compares unequal, depending on what had been interned before): every non-ASCII character is handed over as the ASCII text \u{hex},
    # the same way wherever it occurs, so equalities and the positions of line breaks are preserved
    write_ndjson(out, [_ascii(t) for t in traces])
    res = run_tlc("DslDoc", DOC_TRACE_CFG, sc, data_files={"doc_traces.ndjson": out}, defs="TJobAt(i) == <<>>", timeout=3000, tolerate_errors=True)
    events = sum(len(t["events"]) for t in traces)
    if res.violated:
        bad = traces[res.ints["ri"] - 1] if "ri" in res.ints else None
        chk.drift.append({"doc_listener": "TLC rejects a recorded whole-document listener trace (%s): %s" % (tag, res.violated),
                          "document": next((d["text"] for d in docs if bad and d["id"] == bad["id"]), None), "trace": bad, "detail": res.tail[-800:] if not bad else ""})
        log("document traces (%s): %d documents / %d callbacks, REJECTED by the listener automaton (%s) - drift, not a verdict" % (tag, len(traces), events, res.violated))
        return 0
    log("document traces (%s): %d documents / %d listener callbacks validated by TLC against the whole-listener automaton (%d states)" % (tag, len(traces), events, res.distinct))
    chk.add("doc_traces_validated", len(traces))
    chk.add("doc_events_validated", events)
    chk.cov["states"] = chk.cov.get("states", 0) + res.distinct
    chk.cov["transitions"] = chk.cov.get("transitions", 0) + res.generated
    return len(traces)


def token_validate(chk, binary, sc, recs, limit):
    """Binding of the position function of the layout specification: the tokens the real lexer produced (verif hook after
    ParseDSL, i.e. after the comment pre-pass) are aligned with the lexemes TLC placed: every lexeme must start exactly
    where Render says, its text must be the concatenation of the lexer's tokens from there, and between two lexemes only
    WHITESPACE / NEWLINE tokens may stand. A mismatch is DRIFT of the specification's position model, not a verdict."""
    docs = [r for r in list(recs.values())[:limit] if r["valid"]]
    inp, out = sc.path("tok.in.ndjson"), sc.path("tok.out.ndjson")
    write_ndjson(inp, [{"id": r["id"], "text": r["text"], "modular": r["modular"]} for r in docs])
    run_harness(binary, ["dsl-tokens", "-in", inp, "-out", out])
    ok = bad = lexemes = 0
    for r, o in zip(docs, read_ndjson(out)):
        toks = [t for t in o["tokens"] if t["t"] != -1]       # EOF
        if not toks:
            raise Infra("the token hook recorded nothing for %s (hook removed or not compiled in?)" % r["id"])
        k = 0
        good = True
        for lex, line, col in r["lexemes"]:
            if lex == "":
                continue
            lexemes += 1
            # skip separators
            while k < len(toks) and toks[k]["x"].strip(" \t\r\n\f") == "" and not lex.startswith(toks[k]["x"][:1] if toks[k]["x"].strip() else "\0"):
                k += 1
            if k >= len(toks) or (toks[k]["l"], toks[k]["c"]) != (line, col):
                good = False
                chk.drift.append({"tokens": r["id"], "lexeme": lex[:30], "spec_pos": [line, col], "lexer_pos": [toks[k]["l"], toks[k]["c"]] if k < len(toks) else None})
                break
            acc = ""
            while k < len(toks) and len(acc) < len(lex):
                acc += toks[k]["x"]
                k += 1
            if acc != lex:
                good = False
                chk.drift.append({"tokens": r["id"], "lexeme": lex[:40], "lexer_text": acc[:40]})
                break
        if good and any(t["x"].strip(" \t\r\n\f") != "" for t in toks[k:]):
            good = False
            chk.drift.append({"tokens": r["id"], "note": "lexer produced tokens after the last lexeme", "rest": [t["x"] for t in toks[k:k + 3]]})
        ok += good
        bad += not good
    log("token traces: %d documents / %d lexemes aligned with the real lexer's tokens at the positions the layout specification computes (%d documents off)" % (ok, lexemes, bad))
    chk.add("lexeme_positions_validated", lexemes)
    return ok


def expected_model(m):
    return {"schema": m["schema"], "types": [{"name": t["name"], "rels": [{"name": x["name"], "rw": x["rw"], "restr": x["restr"]} for x in t["rels"]]} for t in m["types"]],
            "conds": [{"name": c["name"], "expr": c["expr"].strip(), "params": c["params"]} for c in m["conds"]]}


def run_c03(chk, binary, sc, tier):
    jobs, recs, obs = run_layouts(chk, binary, sc, tier, True, False, False)
    for j in jobs:
        r, o = recs[j["id"]], obs[j["id"]]
        rep = {"job": j, "text": r["text"], "written": r["m"], "observed": o["parse"]}
        p = o["parse"]
        if p.get("panic"):
            chk.violation("parser panicked on a grammatical layout: %s" % p["panic"], rep)
        elif not p["ok"]:
            chk.violation("grammatical layout rejected: %s" % [(e["line"], e["col"], e["msg"][:80]) for e in p.get("errs") or []][:2], rep)
        elif clean_model(p["m"]) != expected_model(r["m"]):
            chk.violation("layout parses to a different model than the one written", dict(rep, parsed=clean_model(p["m"]), expected=expected_model(r["m"])))
        elif r["modular"]:
            # a module file: every type it declares, every relation it adds to an extended type and every condition carries the module name written
            want = r["m"]["module"]
            # (by position: one file may extend a type and declare a type of that name as well; the models were just found equal)
            pairs = list(zip(r["m"]["types"], p["m"]["types"]))
            got = [(t["name"], t.get("module", "")) for w, t in pairs if not w["ext"]]
            got += [(t["name"] + "#" + x["name"], x.get("module", "")) for w, t in pairs if w["ext"] for x in t.get("rels") or []]
            got += [("condition " + c["name"], c.get("module", "")) for c in p["m"].get("conds") or []]
            # ... and the relations a type is DECLARED with carry none (they belong to the type, whatever else the file does with that name)
            own = [(t["name"] + "#" + x["name"], x.get("module", "")) for w, t in pairs if not w["ext"] for x in t.get("rels") or [] if x.get("module", "")]
            if own:
                chk.violation("module file: relation %s of a declared type is marked as contributed by module %r" % own[0], dict(rep, attributions=own))
            bad = [g for g in got if g[1] != want]
            if bad:
                chk.violation("module file: %s attributed to module %r, the header says %r" % (bad[0][0], bad[0][1], want), dict(rep, attributions=got))
    texts = {recs[j["id"]]["text"] for j in jobs}
    nlst = listener_validate(chk, binary, sc, recs, 100000 if tier == "quick" else 15000)
    doc_model_check(chk, sc, tier)
    # (trace validation of the whole listener and of the lexer: every fourth document at the quick tier, every second one - at most 12,000 - at the thorough tier)
    tdocs = layout_docs(jobs[::4] if tier == "quick" else jobs[::2][:12000], recs)
    nlst += doc_validate(chk, binary, sc, tdocs, "grammatical layouts")
    lexer_validate(chk, binary, sc, [d for d in tdocs if len(d["text"]) < 20000], "grammatical layouts")
    chk.cov.update(traces_validated_against_impl=nlst, evaluations=len(jobs), distinct_nontrivial=len(texts), documents=len(jobs),
                   rule="documents = indexed family (3 name sets incl. keywords and dotted/dashed identifiers x model / deep model / module file x rewrite trees x position of the direct assignment x "
                        "redundant parentheses x restriction and condition variants); layouts = every single style dimension, every single local override on a block of documents, "
                        "seeded random mixtures of styles with up to two overrides; distinct by rendered text")
    for j in jobs[:1] + jobs[-2:]:
        chk.sample({"job": j, "text": recs[j["id"]]["text"]})
    chk.assumptions += ["layout space = C03's feature list intersected with what lexer modes and the comment pre-pass admit (DESIGN 3.2): parameter lists single-line, trailing blanks are spaces, "
                        "comment lines indented with spaces, a trailing comment needs the blank before '#'"]


def run_c01(chk, binary, sc, tier):
    jobs, recs, obs = run_layouts(chk, binary, sc, tier, True, False, True, nonascii=True)
    n = 0
    for j in jobs:
        r, o = recs[j["id"]], obs[j["id"]]
        if r["modular"] or not o["parse"]["ok"]:
            continue        # C01 is about documents accepted as a full model
        n += 1
        c = o["chain"]
        rep = {"job": j, "text": r["text"], "chain": c}
        if c["d1"].get("panic"):
            chk.violation("printer panicked on the model the parser returned: %s" % c["d1"]["panic"], rep)
        elif not c["d1"]["ok"]:
            chk.violation("rendering the in-memory model returned by the DSL parser fails: %s" % c["d1"].get("err"), rep)
        elif not c["j1"]["ok"]:
            chk.violation("rendering through the JSON string API fails: %s" % (c["j1"].get("err") or c["j1"].get("panic")), rep)
        elif not c["j_equal"]:
            chk.violation("JSON-string API and in-memory API render different DSL for the same document", rep)
        elif c.get("m2_err"):
            chk.violation("the rendering does not parse: %s" % c["m2_err"], rep)
        elif not c["m2_equal"]:
            chk.violation("DSL -> model -> DSL -> model is not the identity", rep)
        elif c.get("d2_err"):
            chk.violation("rendering the re-parsed model fails: %s" % c["d2_err"], rep)
        elif not c["m3_equal"] or not c["d3_equal"]:
            # "rendering and parsing once more changes nothing further - the text is then byte-stable": stability is demanded
            # from the second rendering on (the first one may still carry whitespace the pre-pass trims)
            chk.violation("not stable: after rendering and parsing once more the %s still changes" % ("model" if not c["m3_equal"] else "text"), rep)
    chk.cov.update(traces_validated_against_impl=n, evaluations=n * 6, distinct_nontrivial=len({recs[j["id"]]["text"] for j in jobs}), documents=n,
                   rule="the accepted model documents of the C03 layout space (same schedule); per document: parse, render the SAME in-memory value, parse, render; and the JSON string chain; distinct by text")
    for j in jobs[:1] + jobs[-1:]:
        chk.sample({"job": j, "text": recs[j["id"]]["text"], "chain": {k: v for k, v in (obs[j["id"]].get("chain") or {}).items() if k in ("m2_equal", "d2_equal", "m3_equal", "d3_equal", "j_equal")}})


def check_positions(chk, r, o, j, exact):
    """C16, DSL half: bounds for every reported error; exact position for the listener-raised ones"""
    lines = o["lines"]
    p = o["parse"]
    for e in p.get("errs") or []:
        if e["line"] == -1 and e["col"] == -1:
            continue        # not a positioned syntax error
        chk.add("error_positions_checked")
        if not (0 <= e["line"] < len(lines)):
            chk.violation("error line %d outside the input (%d lines): %s" % (e["line"], len(lines), e["msg"][:80]), {"job": j, "text": r["text"], "error": e})
            return
        if not (0 <= e["col"] <= lines[e["line"]]):
            chk.violation("error column %d beyond the end of line %d (length %d): %s" % (e["col"], e["line"], lines[e["line"]], e["msg"][:80]), {"job": j, "text": r["text"], "error": e})
            return
    if exact and r["errtag"] and not p["ok"]:
        exp = [t for t in r["tagged"] if t[0] == r["errtag"]]
        if not exp:
            raise Infra("specification gave no position for tag %s in job %s" % (r["errtag"], j["id"]))
        want = (exp[0][1], exp[0][2])
        kinds = {"duplicate relation": "is already defined in", "duplicate condition": "is already defined in the model", "duplicate parameter": "is already defined in the condition",
                 "extend in model": "extend can only be used in a modular model", "type extended twice": "is already extended in file"}
        mine = [e for e in p.get("errs") or [] if kinds[r["viol"]] in e["msg"]]
        chk.add("exact_positions_checked")
        if not mine:
            chk.drift.append({"job": j["id"], "viol": r["viol"], "note": "rejected, but not with the listener's message", "errors": [e["msg"][:60] for e in p.get("errs") or []][:2]})
        elif want not in [(e["line"], e["col"]) for e in mine]:
            chk.violation("%s: error reported at (%d,%d), the offending name stands at (%d,%d)" % (r["viol"], mine[0]["line"], mine[0]["col"], want[0], want[1]),
                          {"job": j, "text": r["text"], "error": mine[0], "expected": want})


def run_c09(chk, binary, sc, tier):
    jobs, recs, obs = run_layouts(chk, binary, sc, tier, False, True, False)
    kinds = {}
    for j in jobs:
        r, o = recs[j["id"]], obs[j["id"]]
        p = o["parse"]
        kinds[r["viol"]] = kinds.get(r["viol"], 0) + 1
        rep = {"job": j, "violation": r["viol"], "text": r["text"], "observed": p}
        if p.get("panic"):
            chk.violation("parser panicked on a structurally invalid document (%s): %s" % (r["viol"], p["panic"]), rep)
        elif p["ok"]:
            chk.violation("structurally invalid document accepted (%s)" % r["viol"], rep)
        elif p.get("nilerr"):
            chk.violation("rejected, but a model was returned together with the error (%s)" % r["viol"], rep)
        elif not p.get("errs"):
            chk.violation("rejected without an error value (%s)" % r["viol"], rep)
    doc_model_check(chk, sc, tier)
    tdocs = layout_docs(jobs[::3] if tier == "quick" else jobs[::2][:12000], recs)
    doc_validate(chk, binary, sc, tdocs, "catalogue violations")
    lexer_validate(chk, binary, sc, [d for d in tdocs if len(d["text"]) < 20000], "catalogue violations")
    chk.cov.update(traces_validated_against_impl=len(jobs), evaluations=len(jobs), distinct_nontrivial=len({recs[j["id"]]["text"] for j in jobs}), per_violation=kinds,
                   rule="13 structural violations x injection sites (relation index, operand position, nesting depth 0-2, operator pair, rewrite shape of the duplicate, parameter index) x documents "
                        "(3 name sets, model / deep / module) + the same under random layouts; distinct by text")
    for j in jobs[:1] + jobs[len(jobs) // 2:len(jobs) // 2 + 1]:
        chk.sample({"job": j, "violation": recs[j["id"]]["viol"], "text": recs[j["id"]]["text"]})


def run_c16(chk, binary, sc, tier):
    jobs, recs, obs = run_layouts(chk, binary, sc, tier, False, True, False)
    for j in jobs:
        check_positions(chk, recs[j["id"]], obs[j["id"]], j, True)
    # characters the lexer has no rule for (zero width space, word joiner, byte order mark - what pasted text carries) in front of the
    # offending declaration on its line: the lexer reports and skips them, every column behind them still counts them
    zj = [j for j in jobs if recs[j["id"]]["errtag"] and not obs[j["id"]]["parse"]["ok"]][::7][:400 if tier == "quick" else 3000]
    zdocs = []
    for n, j in enumerate(zj):
        r = recs[j["id"]]
        exp = [t for t in r["tagged"] if t[0] == r["errtag"]]
        if not exp:
            continue
        ln, col = exp[0][1], exp[0][2]
        tl = r["text"].split("\n")
        if ln >= len(tl) or "\r" in tl[ln][:col]:
            continue
        k = len(tl[ln]) - len(tl[ln].lstrip(" \t"))
        if k > col:
            continue
        z = ["\u200b", "\u2060", "\ufeff", "\u200b\u2060"][n % 4]
        tl[ln] = tl[ln][:k] + z + tl[ln][k:]
        zdocs.append(({"id": "Z%d" % n, "text": "\n".join(tl), "modular": r["modular"]}, dict(r, text="\n".join(tl), tagged=[[t[0], t[1], t[2] + (len(z) if t[1] == ln and t[2] >= k else 0)] + t[3:] for t in r["tagged"]]), j))
    if zdocs:
        zi, zo = sc.path("z.in.ndjson"), sc.path("z.out.ndjson")
        write_ndjson(zi, [d[0] for d in zdocs])
        run_harness(binary, ["dsl-parse", "-in", zi, "-out", zo])
        for (d, r2, j), o in zip(zdocs, read_ndjson(zo)):
            check_positions(chk, r2, o, dict(j, id=d["id"]), True)
        chk.add("documents_with_unlexable_characters_before_the_error", len(zdocs))
    # the position function itself: every lexeme of valid documents against the real lexer's token trace
    vjobs0, vrecs0, _ = run_layouts(chk, binary, sc, "quick", True, False, False)
    token_validate(chk, binary, sc, vrecs0, 1500 if tier == "quick" else 6000)
    # rejected byte strings beyond the catalogue: truncations and single-character edits of valid documents (bounds only)
    import random
    rng = random.Random(SEED)
    vjobs, vrecs, _ = run_layouts(chk, binary, sc, "quick", True, False, False) if tier == "thorough" else (None, None, None)
    texts = [recs[j["id"]]["text"] for j in jobs[:400]]
    muts = []
    for t in texts:
        for _ in range(3):
            k = rng.randrange(0, len(t))
            how = rng.randrange(0, 4)
            m = t[:k] if how == 0 else t[:k] + rng.choice("[]():#,*\n \t{}x") + t[k:] if how == 1 else t[:k] + t[k + 1:] if how == 2 else t[:k] + t[k:k + 5][::-1] + t[k + 5:]
            muts.append({"id": "M%d" % len(muts), "text": m, "modular": False})
    inp, out = sc.path("mut.in.ndjson"), sc.path("mut.out.ndjson")
    write_ndjson(inp, muts)
    run_harness(binary, ["dsl-parse", "-in", inp, "-out", out])
    for m, o in zip(muts, read_ndjson(out)):
        check_positions(chk, {"text": m["text"], "errtag": None, "tagged": [], "viol": ""}, o, {"id": m["id"]}, False)
    # merge half of the property: same machinery as C07 with the C16 judge
    import chk_merge
    chk_merge.run_into(chk, "C16", binary, sc, tier)
    chk.cov.update(traces_validated_against_impl=chk.cov.get("exact_positions_checked", 0) + chk.cov.get("merge_positions_checked", 0),
                   evaluations=chk.cov.get("error_positions_checked", 0) + chk.cov.get("merge_positions_checked", 0),
                   distinct_nontrivial=len({recs[j["id"]]["text"] for j in jobs}) + len(muts),
                   rule="bounds: every positioned error of every rejected catalogue document and of %d seeded truncations / one-character edits; exact: the listener-raised errors of the catalogue "
                        "(duplicate relation / condition / parameter, extend in model, type extended twice) against the position of the offending name lexeme computed by the layout "
                        "specification; merge: every conflict of the Merge.tla universe against the line of the conflicting declaration; distinct by text" % len(muts))
    for j in [x for x in jobs if recs[x["id"]]["errtag"]][:2]:
        chk.sample({"job": j, "violation": recs[j["id"]]["viol"], "text": recs[j["id"]]["text"], "expected_position": [t for t in recs[j["id"]]["tagged"] if t[0] == recs[j["id"]]["errtag"]]})


RUNNERS = {"C01": run_c01, "C02": run_c02, "C03": run_c03, "C09": run_c09, "C14": run_c14, "C16": run_c16}


def run(pid, tier):
    chk = Check(pid, tier, "model_checking")
    sc = Scratch()
    try:
        binary = build_harness(sc)
        RUNNERS[pid](chk, binary, sc, tier)
        return chk.finish()
    finally:
        sc.cleanup()


def replay(pid, path):
    r = json.load(open(path))
    chk = Check(pid, "quick", "model_checking")
    sc = Scratch()
    try:
        binary = build_harness(sc)
        if pid == "C02":
            rec = {"id": r["id"], "rec": "tree", "m": r["m"], "expressible": r["spec"]["expressible"], "print": r["spec"]["print"], "norm": r.get("expected"), "assignable": None}
            obs = run_print(binary, sc, [rec], "replay")
            o = obs[r["id"]]
            # without TLC in the loop only the verdict clauses are re-evaluated
            for api in ("proto", "json"):
                if o[api]["ok"] != rec["expressible"]:
                    chk.violation("still: conversion %s but expressible=%s" % (o[api]["ok"], rec["expressible"]), r)
        elif pid == "C14":
            rec = {"id": r["id"], "rec": "attr", "m": r["m"], "plain": r["spec_plain"], "src": r["spec_src"], "norm": None, "modular": True}
            obs = run_print(binary, sc, [rec], "replay", variants=10)
            o = obs[r["id"]]
            if len(set(o["variants"]) | {o["proto"]["text"]}) > 1 or o["proto"]["text"] != rec["plain"] or o["proto_src"]["text"] != rec["src"]:
                chk.violation("still: output differs from the canonical one", r)
        log("replay of %s: %s" % (path, "still violates" if chk.violations else "no violation"))
        return 1 if chk.violations else 0
    finally:
        sc.cleanup()
