"""C01, C02, C03, C09, C14, C16 - the DSL.  Specifications: spec/Dsl.tla (printer, expressibility, normal form),
spec/DslLayout.tla (grammar-driven layouts, violation catalogue, positions), universes in DslMC / DslLayoutMC.

RP : TLC generates abstract models / documents with the expected outcome computed from the specification (printed text,
     Expressible, Norm, the model a layout was written from, the position of every lexeme); the harness runs the real
     transformers and the driver compares structurally.
"""
import json

from vlib import *

NEST_ERR = "is not supported by the OpenFGA DSL syntax yet"


def clean_model(m, with_schema=True):
    """projection used when comparing parsed models: names, rewrites, restrictions, conditions (expressions modulo outer whitespace)"""
    if not m:
        return None
    return {"schema": m.get("schema") if with_schema else None,
            "types": [{"name": t["name"], "rels": [{"name": x["name"], "rw": x["rw"], "restr": x.get("restr") or []} for x in t.get("rels") or []]} for t in m.get("types") or []],
            "conds": [{"name": c["name"], "expr": c["expr"].strip(), "params": c.get("params") or []} for c in m.get("conds") or []]}


TREES_CFG = """INIT TreesInit
NEXT TreesNext
CONSTANTS
  W1 = %(w1)d
  W2 = %(w2)d
  Deep = %(deep)s
  TypeAttrs = {1}
  RelAttrs = {1}
  CondAttrs = {1}
INVARIANT TreesOK
CHECK_DEADLOCK FALSE
"""
ATTR_CFG = """INIT AttrInit
NEXT AttrNext
CONSTANTS
  W1 = 1
  W2 = 1
  Deep = FALSE
  TypeAttrs = %(ta)s
  RelAttrs = %(ra)s
  CondAttrs = %(ca)s
INVARIANT AttrOK
CHECK_DEADLOCK FALSE
"""


def run_print(binary, sc, recs, tag, variants=0):
    inp, out = sc.path(tag + ".in.ndjson"), sc.path(tag + ".out.ndjson")
    write_ndjson(inp, [{"id": r["id"], "rec": r["rec"], "m": r["m"]} for r in recs])
    run_harness(binary, ["dsl-print", "-in", inp, "-out", out, "-seed", str(SEED), "-variants", str(variants)])
    obs = {o["id"]: o for o in read_ndjson(out)}
    if len(obs) != len(recs):
        raise Infra("dsl-print returned %d observations for %d records" % (len(obs), len(recs)))
    return obs


# ------------------------------------------------------------------------------------------------ C02

def judge_c02(chk, r, o):
    rep = {"id": r["id"], "m": r["m"], "spec": {k: r[k] for k in ("expressible", "print")}, "observed": {k: o[k] for k in ("proto", "json")}}
    for api in ("proto", "json"):
        p = o[api]
        if p.get("panic"):
            chk.violation("printer panicked (%s API) on tree %s: %s" % (api, r["id"], p["panic"]), rep)
            return
        if p["ok"] != r["expressible"]:
            chk.violation("tree %s: conversion %s through the %s API but the model is %s" % (
                r["id"], "succeeds" if p["ok"] else "fails (%s)" % p.get("err"), api, "DSL-expressible" if r["expressible"] else "not DSL-expressible"), rep)
            return
        if not p["ok"] and NEST_ERR not in (p.get("err") or ""):
            chk.violation("tree %s: not expressible, but the error is not the unsupported-nesting one: %s" % (r["id"], p.get("err")), rep)
            return
    if not r["expressible"]:
        return
    if o["json"]["text"] != o["proto"]["text"]:
        chk.violation("tree %s: JSON-string API and protobuf API print different DSL" % r["id"], rep)
        return
    rp = o["reparse"]
    if not rp["ok"]:
        chk.violation("tree %s: the produced DSL does not parse: %s" % (r["id"], rp.get("errs") or rp.get("panic")), dict(rep, dsl=o["proto"]["text"]))
        return
    if clean_model(rp["m"]) != clean_model(r["norm"]):
        chk.violation("tree %s: parsing the produced DSL does not give back the model (up to the stated normalisation)" % r["id"],
                      dict(rep, dsl=o["proto"]["text"], reparsed=clean_model(rp["m"]), expected=clean_model(r["norm"])))
        return
    if o["proto"]["text"] != r["print"]:
        # the property is decided by the reparse above; a different but equivalent text is drift of the Impl layer
        chk.drift.append({"tree": r["id"], "real": o["proto"]["text"][-120:], "spec": r["print"][-120:]})
    key = "doc#x"
    if o["assignable"].get(key) != r["assignable"]:
        chk.violation("tree %s: IsRelationAssignable = %s but the tree %s a direct assignment" % (r["id"], o["assignable"].get(key), "has" if r["assignable"] else "has no"), rep)


def run_c02(chk, binary, sc, tier):
    w1, w2, deep = (3, 2, "FALSE") if tier == "quick" else (3, 2, "TRUE")
    res = run_tlc("DslMC", TREES_CFG % {"w1": w1, "w2": w2, "deep": deep}, sc, cache=True, timeout=3000)
    if res.violated:
        raise Infra("TreesOK (ExpressibleIffPrintable / AssignableIffBracket) violated on spec/Dsl.tla:\n" + res.tail[-1500:])
    recs = res.records
    log("TLC: %d rewrite trees (depth <= 2, direct assignment anywhere), ExpressibleIffPrintable holds on the Impl printer, %.0fs%s" % (len(recs), res.wall, " (cached)" if res.cached else ""))
    obs = run_print(binary, sc, recs, "trees")
    for r in recs:
        judge_c02(chk, r, obs[r["id"]])
    chk.cov.update(states=res.distinct, transitions=res.generated, traces_validated_against_impl=len(recs) - len(chk.drift),
                   evaluations=len(recs) * 2, distinct_nontrivial=len([r for r in recs if len(r["id"]) > 1]), exhaustive=True,
                   expressible=len([r for r in recs if r["expressible"]]),
                   rule="every rewrite tree of depth <= 2 (width <= %d at depth 1, <= %d at depth 2%s) over the leaves this / computed / tuple-to-userset, single-child operators included, "
                        "wrapped into a model with rotating restriction lists (wildcards, usersets, conditions); non-trivial = not a bare leaf" % (w1, w2, ", full depth-1 set" if deep == "TRUE" else ", depth-1 operands with <= 2 children"))
    for r in recs[:1] + recs[len(recs) // 2:len(recs) // 2 + 2]:
        chk.sample({"tree": r["id"], "expressible": r["expressible"], "print": r["print"][-100:]})
    chk.assumptions += ["domain: operators have >= 1 child, exclusions both operands (degenerate protobuf models belong to C08)"]


# ------------------------------------------------------------------------------------------------ C14

def strip_comments(text):
    out = []
    for line in text.split("\n"):
        if len(line.lstrip(" ")) == 0:
            out.append("")
        elif line.lstrip(" ")[0] == "#":
            out.append("")
        else:
            out.append(line.split(" #")[0].rstrip(" "))
    return "\n".join(out)


def judge_c14(chk, r, o):
    rep = {"id": r["id"], "m": r["m"], "spec_plain": r["plain"], "spec_src": r["src"]}
    for k in ("proto", "proto_src", "json"):
        if not o[k]["ok"]:
            chk.violation("printer fails on an attributed model (%s): %s" % (k, o[k].get("err") or o[k].get("panic")), rep)
            return
    if len(o["variants"]) > 1 or (o["variants"] and o["variants"][0] != o["proto"]["text"]):
        chk.violation("DSL output is not a function of the model content: %d different outputs over %d encodings / type orders / repetitions" % (
            len(set(o["variants"]) | {o["proto"]["text"]}), o["nvariants"]), dict(rep, outputs=o["variants"][:3], first=o["proto"]["text"]))
        return
    if len(o["variants_src"]) > 1 or (o["variants_src"] and o["variants_src"][0] != o["proto_src"]["text"]):
        chk.violation("source-info DSL output varies over encodings / type orders / repetitions", dict(rep, outputs=o["variants_src"][:3]))
        return
    if o["proto"]["text"] != r["plain"]:
        chk.violation("order of types / relations / conditions / parameters is not the documented one", dict(rep, real=o["proto"]["text"]))
        return
    if o["proto_src"]["text"] != r["src"]:
        chk.violation("source-info output differs from the documented form", dict(rep, real=o["proto_src"]["text"]))
        return
    if strip_comments(o["proto_src"]["text"]) != o["proto"]["text"]:
        chk.violation("stripping the comments of the source-info output does not give the plain output", dict(rep, real_src=o["proto_src"]["text"], real=o["proto"]["text"]))
        return
    a, b = o["reparse"], o["reparse_src"]
    if not a["ok"] or not b["ok"]:
        chk.violation("printed DSL does not parse: plain %s / source-info %s" % (a.get("errs"), b.get("errs")), dict(rep, real_src=o["proto_src"]["text"]))
    elif clean_model(a["m"]) != clean_model(b["m"]):
        chk.violation("plain and source-info output parse to different models", rep)
    elif sorted(json.dumps(t, sort_keys=True) for t in clean_model(a["m"])["types"]) != sorted(json.dumps(t, sort_keys=True) for t in clean_model(r["norm"])["types"]) \
            or clean_model(a["m"])["conds"] != clean_model(r["norm"])["conds"]:
        chk.violation("printed DSL parses to a different model than the one printed", dict(rep, reparsed=clean_model(a["m"]), expected=clean_model(r["norm"])))


def run_c14(chk, binary, sc, tier):
    ta, ra, ca = ("{1,2,3,5}", "{1,2,4}", "{1,3,6}") if tier == "quick" else ("{1,2,3,4,5}", "{1,2,3,4,7}", "{1,2,3,6}")
    res = run_tlc("DslMC", ATTR_CFG % {"ta": ta, "ra": ra, "ca": ca}, sc, cache=True, timeout=3000)
    if res.violated:
        raise Infra("AttrOK (SourceCommentsInert) violated on spec/Dsl.tla:\n" + res.tail[-1500:])
    recs = res.records
    log("TLC: %d attributed models (module/file of every type, relation, condition), SourceCommentsInert holds on the Impl printer, %.0fs%s" % (len(recs), res.wall, " (cached)" if res.cached else ""))
    obs = run_print(binary, sc, recs, "attr", variants=4 if tier == "quick" else 10)
    n = 0
    for r in recs:
        judge_c14(chk, r, obs[r["id"]])
        n += obs[r["id"]]["nvariants"] * 3 + 3
    chk.cov.update(states=res.distinct, transitions=res.generated, traces_validated_against_impl=len(recs), evaluations=n,
                   distinct_nontrivial=len([r for r in recs if r["modular"]]), exhaustive=True,
                   rule="a model of 2 types / 3 relations / 2 conditions with every combination of (module, file) attribution from a pool incl. empty module with file, file names with "
                        "blank, '#', ', file:'; each printed from 4-10 shuffled JSON key orders x permuted type definitions x 3 repetitions x both option values; non-trivial = modular")
    for r in recs[:1] + recs[-1:]:
        chk.sample({"id": r["id"], "src_output": r["src"]})
    chk.assumptions += ["module and file names are single-line", "type definitions are permuted only for modular models (the statement limits that clause to them)"]


RUNNERS = {"C02": run_c02, "C14": run_c14}


def run(pid, tier):
    chk = Check(pid, tier, "model_checking")
    sc = Scratch()
    try:
        binary = build_harness(sc)
        RUNNERS[pid](chk, binary, sc, tier)
        return chk.finish()
    finally:
        sc.cleanup()


def replay(pid, path):
    r = json.load(open(path))
    chk = Check(pid, "quick", "model_checking")
    sc = Scratch()
    try:
        binary = build_harness(sc)
        if pid == "C02":
            rec = {"id": r["id"], "rec": "tree", "m": r["m"], "expressible": r["spec"]["expressible"], "print": r["spec"]["print"], "norm": r.get("expected"), "assignable": None}
            obs = run_print(binary, sc, [rec], "replay")
            o = obs[r["id"]]
            # without TLC in the loop only the verdict clauses are re-evaluated
            for api in ("proto", "json"):
                if o[api]["ok"] != rec["expressible"]:
                    chk.violation("still: conversion %s but expressible=%s" % (o[api]["ok"], rec["expressible"]), r)
        elif pid == "C14":
            rec = {"id": r["id"], "rec": "attr", "m": r["m"], "plain": r["spec_plain"], "src": r["spec_src"], "norm": None, "modular": True}
            obs = run_print(binary, sc, [rec], "replay", variants=10)
            o = obs[r["id"]]
            if len(set(o["variants"]) | {o["proto"]["text"]}) > 1 or o["proto"]["text"] != rec["plain"] or o["proto_src"]["text"] != rec["src"]:
                chk.violation("still: output differs from the canonical one", r)
        log("replay of %s: %s" % (path, "still violates" if chk.violations else "no violation"))
        return 1 if chk.violations else 0
    finally:
        sc.cleanup()
