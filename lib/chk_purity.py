"""C13 - pure functions.  Specification: spec/Purity.tla.

Gen : TLC enumerates call histories (sequences of compatible (operation, object) calls) and concurrency scenarios.
Run : the harness executes every history in ONE warm process (so caches filled by earlier inputs are in play), takes a deep
      snapshot of every argument object before and after each call, and compares every result with the result of the same
      call in a COLD subprocess; scenarios are run from a start barrier in a -race build, on a shared object or on private
      clones; the race detector's reports are attributed to the running scenario.
TV  : the recorded executions (Begin / observed Write / End events, cold results as a prefix) are validated by TLC against
      the declared footprints: InputsUnchanged, ResultDependsOnlyOnArgs, NoDataRace.
"""
import json
import re
import subprocess

from vlib import *

GEN_CFG = """INIT %(mode)sInit
NEXT %(mode)sNext
CONSTANTS
  Pairs <- PairsV
  MaxLen = %(maxlen)d
  MaxPar = %(maxpar)d
CHECK_DEADLOCK FALSE
"""
TRACE_CFG = """INIT TraceInit
NEXT TraceNext
CONSTANTS
  Pairs <- PairsV
  MaxLen = 1
  MaxPar = 1
CHECK_DEADLOCK FALSE
INVARIANTS InputsUnchanged ResultDependsOnlyOnArgs NoDataRace
"""


def run(pid, tier):
    chk = Check(pid, tier, "exploration")
    sc = Scratch()
    try:
        binary = build_harness(sc)
        race = build_harness(sc, race=True)
        pairs = json.loads(run_harness(binary, ["purity-pairs"]))
        defs = "PairsV == {" + ", ".join('<<"%s", "%s">>' % (a, b) for a, b in pairs) + "}"
        maxlen = 2 if tier == "quick" else 3
        hist = run_tlc("Purity", GEN_CFG % {"mode": "Hist", "maxlen": maxlen, "maxpar": 2}, sc, defs=defs, cache=True, timeout=3000)
        scen = run_tlc("Purity", GEN_CFG % {"mode": "Scen", "maxlen": 1, "maxpar": 2}, sc, defs=defs, cache=True, timeout=3000)
        histories = [r for r in hist.records if r["rec"] == "history"]
        if tier == "thorough":
            import random
            rng = random.Random(SEED)
            histories = [h for h in histories if len(h["calls"]) < 3 or rng.random() < 0.15]
        # scenarios: unordered pairs of calls; the sharing mode only matters when a model object is involved
        seen = set()
        scenarios = []
        for r in scen.records:
            if r["rec"] != "scenario":
                continue
            key = (tuple(sorted(map(tuple, r["calls"]))), r["shared"])
            has_model = any(c[1].startswith("m_") for c in r["calls"])
            if any(c[0].endswith("_recycled") for c in r["calls"]):
                continue        # the recycled message is one value of the harness: sequential histories only
            if key in seen or (not r["shared"] and not has_model):
                continue
            seen.add(key)
            scenarios.append(r)
        log("TLC generated %d call histories (length <= %d) and %d concurrency scenarios over %d compatible (operation, object) pairs" % (len(histories), maxlen, len(scenarios), len(pairs)))
        # cold results: one fresh process per call
        cold = {}
        for op, obj in pairs:
            cold[(op, obj)] = run_harness(binary, ["purity-run", "-mode", "cold", "-pair", "%s|%s" % (op, obj)]).strip().split("\n")[-1]
        hf, ho = sc.path("hist.ndjson"), sc.path("hist.traces.ndjson")
        write_ndjson(hf, histories)
        run_harness(binary, ["purity-run", "-mode", "seq", "-in", hf, "-out", ho])
        sf, so = sc.path("scen.ndjson"), sc.path("scen.traces.ndjson")
        write_ndjson(sf, scenarios)
        env = dict(GOENV, GORACE="halt_on_error=0 exitcode=0")
        # the scenarios are spread over processes of 300 each (several at a time): a race-detector process that has seen thousands of
        # goroutines come and go loses sight of races it reports when fresh (measured: the same pair of calls is reported after 500
        # scenarios and not after 2,000)
        from concurrent.futures import ThreadPoolExecutor

        class _R:
            stderr = ""
        CH = 300

        def chunk(k):
            cf, co = sc.path("scen.%d.ndjson" % k), sc.path("scen.%d.traces.ndjson" % k)
            write_ndjson(cf, scenarios[k * CH:(k + 1) * CH])
            p = subprocess.run([race, "purity-run", "-mode", "conc", "-in", cf, "-out", co, "-base", str(k * CH), "-reps", "4" if tier == "quick" else "20"],
                               env=env, stdout=subprocess.PIPE, stderr=subprocess.PIPE, text=True, timeout=3000)
            if p.returncode != 0:
                raise Infra("race build of the harness failed to run the scenarios:\n" + (p.stderr or "")[-3000:])
            return read_ndjson(co), p.stderr or ""
        with ThreadPoolExecutor(max_workers=6) as ex:
            parts = list(ex.map(chunk, range((len(scenarios) + CH - 1) // CH)))
        write_ndjson(so, [t for ts, _ in parts for t in ts])
        r = _R()
        r.stderr = "\n".join(e for _, e in parts)
        # cold concurrent first use: one fresh process of the race build per operation, eight goroutines on distinct objects from a
        # barrier, nothing called before (objects decoded without the library)
        dump = sc.path("pool_dump.json")
        open(dump, "w").write(run_harness(binary, ["purity-run", "-mode", "dump"]).strip().split("\n")[-1])
        cc_traces = []
        for op in sorted({p[0] for p in pairs if not p[0].endswith("_recycled")}):
            for rep in range(2 if tier == "quick" else 6):
                cr = subprocess.run([race, "purity-run", "-mode", "coldconc", "-op", op, "-models", dump], env=env, stdout=subprocess.PIPE, stderr=subprocess.PIPE, text=True, timeout=600)
                if cr.returncode != 0:
                    raise Infra("race build of the harness failed in cold-concurrent mode (%s):\n%s" % (op, (cr.stderr or "")[-2000:]))
                o = json.loads(cr.stdout.strip().split("\n")[-1])
                chk.add("cold_concurrent_first_uses")
                rep_ = {"mode": "cold concurrent first use", "op": op, "objects": o["objs"]}
                # the same execution as a trace for the specification: cold results first, then the overlapping calls
                evs = []
                for obj in sorted(set(o["objs"])):
                    evs += [{"ev": "begin", "p": 0, "op": op, "obj": obj}, {"ev": "end", "p": 0, "res": cold[(op, obj)]}]
                evs += [{"ev": "begin", "p": i + 1, "op": op, "obj": obj} for i, obj in enumerate(o["objs"])]
                if "WARNING: DATA RACE" in cr.stderr:
                    evs.append({"ev": "write", "p": 0, "obj": o["objs"][0]})
                evs += [{"ev": "end", "p": i + 1, "res": res} for i, res in enumerate(o["results"])]
                cc_traces.append({"id": "cc-%s-%d" % (op, rep), "events": evs})
                if "WARNING: DATA RACE" in cr.stderr:
                    chk.violation("data race reported by the race detector when the first use of %s in a process is concurrent (distinct objects %s)" % (op, sorted(set(o["objs"]))),
                                  dict(rep_, report=cr.stderr[:3000]))
                    break
                bad = [(obj, res) for obj, res in zip(o["objs"], o["results"]) if res != cold[(op, obj)]]
                if bad:
                    chk.violation("result of %s(%s) differs when the first use in a process is concurrent" % (op, bad[0][0]), dict(rep_, observed=bad[0][1], cold=cold[(op, bad[0][0])]))
                    break
        # the construction API of the weighted graph keeps what it is given: behaviours of spec/WGraphApi.tla, the caller's slices watched
        import chk_wgraph
        chk_wgraph.api_automaton(chk, binary, sc, tier, purity_pid=True)
        # attribute race reports to scenarios
        open(sc.path("scen.stderr.txt"), "w").write(r.stderr or "")
        races = {}
        cur = None
        for line in r.stderr.split("\n"):
            m = re.match(r"SCENARIO (\S+)", line)
            if m:
                cur = m.group(1)
            elif "WARNING: DATA RACE" in line and cur:
                races[cur] = races.get(cur, 0) + 1
        racetext = r.stderr
        traces = read_ndjson(ho) + read_ndjson(so)
        # judge + build the validated traces (cold results as a prefix of calls by process 0)
        vtraces = []
        for t in traces:
            rep = {"trace": t["id"], "kind": t["kind"], "shared": t["shared"], "calls": t["calls"]}
            open_calls = {}
            ev2 = []
            for c in {tuple(c) for c in t["calls"]}:
                ev2.append({"ev": "begin", "p": 0, "op": c[0], "obj": c[1]})
                ev2.append({"ev": "end", "p": 0, "res": cold[c]})
            first_begin_done = False
            for e in t["events"]:
                if e["ev"] == "begin":
                    open_calls[e["p"]] = (e["op"], e["obj"])
                ev2.append({k: v for k, v in e.items() if v != "" or k == "res"})
                if e["ev"] == "begin" and t["id"] in races and not first_begin_done and len(open_calls) == len(t["calls"]):
                    first_begin_done = True
                    shared_objs = [c[1] for c in t["calls"] if c[1].startswith("m_")] or [t["calls"][0][1]]
                    ev2.append({"ev": "write", "p": 0, "obj": shared_objs[0]})
                if e["ev"] == "mutated":
                    chk.violation("the error value %s(%s) returned reads differently after the calls that followed (%s)" % (e["op"], e["obj"], t["calls"]), rep)
                if e["ev"] == "write":
                    chk.violation("%s: input %s was modified by a call (%s)" % (t["kind"], e["obj"], t["calls"]), rep)
                if e["ev"] == "end":
                    call = open_calls.pop(e["p"])
                    chk.add("calls_compared")
                    if e["res"].startswith("panic:"):
                        chk.violation("%s: %s(%s) panicked: %s" % (t["kind"], call[0], call[1], e["res"]), rep)
                    elif e["res"] != cold[call]:
                        why = "depends on the calls made before it" if t["kind"] == "history" else "differs under concurrency"
                        chk.violation("result of %s(%s) %s (history/scenario %s)" % (call[0], call[1], why, t["calls"]), dict(rep, cold=cold[call], observed=e["res"]))
            if t["id"] in races:
                m = re.search(r"SCENARIO %s\n(.*?)(?=SCENARIO |\Z)" % re.escape(t["id"]), racetext, re.S)
                chk.violation("data race reported by the race detector while running %s concurrently (%s)" % (t["calls"], "shared object" if t["shared"] else "private copies"),
                              dict(rep, report=(m.group(1) if m else "")[:3000]))
            vtraces.append({"id": t["id"], "events": ev2})
        vtraces += cc_traces
        tf = sc.path("purity_traces.ndjson")
        write_ndjson(tf, vtraces)
        tv = run_tlc("Purity", TRACE_CFG, sc, defs=defs, data_files={"purity_traces.ndjson": tf}, timeout=3000)
        if tv.violated and not chk.violations:
            raise Infra("TLC rejects a recorded execution (%s) that the driver judged clean\n%s" % (tv.violated, tv.tail[-1500:]))
        if chk.violations and not tv.violated:
            raise Infra("the driver found a violation that the trace specification accepts")
        log("executed %d histories (warm process) and %d scenarios (-race, barrier start); TLC validated %d recorded executions (%d states)%s" % (
            len(histories), len(scenarios), len(vtraces), tv.distinct, "" if not tv.violated else ": " + ", ".join(tv.violated)))
        chk.cov.update(evaluations=chk.cov.get("calls_compared", 0), distinct_nontrivial=len(histories) + len(scenarios),
                       rule="histories = all sequences of <= %d compatible (operation, object) calls over 24 operations (every validator on its own; builders and printer also on ONE re-used message value) and 18 pooled objects (two models of different content under one id) (thorough: length 3 sampled at 15%%); scenarios = all unordered "
                            "pairs of calls, on a shared model or private clones, repeated from a start barrier under the race detector; every call result compared with a cold subprocess; distinct = "
                            "distinct histories + scenarios, non-trivial = all (single calls are the cold runs)" % maxlen,
                       states=hist.distinct + scen.distinct + tv.distinct, transitions=hist.generated + scen.generated + tv.generated,
                       traces_validated_against_impl=len(vtraces), race_reports=sum(races.values()))
        for t in vtraces[:1] + vtraces[-1:]:
            chk.sample(t)
        chk.assumptions += ["the race detector sees races that are possible in the executed code paths, not every schedule",
                            "results are compared through digests of their abstract projection (error class for rejected weighted graphs is not part of the result)"]
        return chk.finish()
    finally:
        sc.cleanup()


def replay(pid, path):
    log("C13 replays re-run the quick check (histories and scenarios are enumerated, the pool is fixed)")
    return run(pid, "quick")
