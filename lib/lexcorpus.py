"""Documents for the lexer automaton (spec/Lexer.tla) that are not rendered from the layout specification."""
import glob
import os

# condition bodies that use the lexical corners of the CEL half of OpenFGALexer.g4: the eight string forms, escape sequences, bytes,
# numbers, comments, two-character operators next to their one-character prefixes, keywords glued to identifier characters, and
# texts the lexer cannot finish (unterminated strings, bad escapes, characters no rule starts with)
CEL_BODIES = [
    'x == "a" && y != \'b\'',
    'x == "" || y == \'\'',
    's == "a\\"b\\\\c\\n\\t\\x41\\u00e9\\U0001F600\\101\\?\\`"',
    "s == 'it\\'s'",
    's == """tri"ple"" quoted"""',
    "s == '''tri'ple'' quoted'''",
    's == """multi\nline"""',
    's == r"raw\\d+" || s == R\'raw\\w\'',
    's == r"""raw "triple" \\ """',
    "s == r'''raw 'triple' \\ '''",
    's == b"bytes" || s == B\'by\\x00tes\'',
    's == br"x"',
    's == b"""tri"""',
    'n == 1 || n == 0x1F || n == 12u || n == 0xffU || n == 7U',
    'f == 1.5 || f == 1e9 || f == 1.5e-3 || f == .5 || f == .5E+2 || f == 2E10',
    'v == 1.2 && w == 10.20',
    'x<=y && x>=y && x<y && x>y && x==y && x!=y',
    'a&&b||!c',
    'x ? y : z',
    'm.k + m["k"] - -1 * 2 / 3 % 4',
    'x in [1, 2u, 3.0] && {"a": 1}.a == 1',
    'true && false || null == x',
    'trueish && falsey || nullable',
    'inx in iny',
    'x // a comment to the end of the line\n  && y',
    'x /* not a comment in CEL */ y',
    'a.b.c(d, e)[0].f',
    'type(x) == int && has(m.f)',
    'a-b < a - b',
    'model && schema && module && extend && relation && relations && define && with && from && and && or',
    'but not',
    'but  not',
    'condition',
    'x == 1.',
    'x == 1..2',
    'x == 0x',
    'x == 1e',
    'x == 1e+',
    's == "unterminated',
    "s == 'unterminated",
    's == "bad \\q escape"',
    's == """never closed',
    's == "a\nb"',
    'x == $y',
    'x @ y',
    'x == `y`',
    'a;b',
    'x = y',
    'x & y',
    'x | y',
    's == "\\x4"',
    's == "\\u12"',
    's == "\\400"',
    's == "\\377"',
    'b"x" b\'y\' B"z"',
    'rr"x"',
    'r',
    'b',
    'R"',
    "b'",
    '_a1-b_2 == a_',
    'a/b.c-d',
    'a//b',
    'a.b/c',
    'x.-y',
    '-.5',
    '1.5.2',
    '0x1G',
    '12uu',
    '1_000',
    'a\tb\fc',
    'x ==\r\n  y',
    'x ==\r  y',
]


def lexer_corpus(repo):
    """the DSL fixtures of the repository, and per CEL body above one document with it as a condition body and one with its first word in
    the parameter list (mode CONDITION_DEF)"""
    docs = []
    for f in sorted(glob.glob(os.path.join(repo, "tests/data/transformer/*/*.dsl")) + glob.glob(os.path.join(repo, "tests/data/transformer-module/*/module/*.fga"))
                    + glob.glob(os.path.join(repo, "tests/data/transformer-module/*/*.dsl"))):
        docs.append({"id": "fx-" + "-".join(f.split("/")[-3:]), "text": open(f, encoding="utf-8").read()})
    for i, b in enumerate(CEL_BODIES):
        docs.append({"id": "cel%d" % i, "text": "model\n  schema 1.1\ntype user\ncondition c%d(x: int, ys: list<string>, m: map<uint>, d: duration, t: timestamp, ip: ipaddress, f: double, ok: bool, s: string) {\n  %s\n}\n" % (i, b)})
        docs.append({"id": "celp%d" % i, "text": "model\n  schema 1.1\ntype user\ncondition c(%s: int) {\n  x\n}\n" % b.split(" ")[0]})
    docs.append({"id": "cdef1", "text": "model\n  schema 1.1\ncondition c(a:map<list<string>>,b : mapx , listy:int) {\n x\n}\ncondition d(\n x: int) { x }\n"})
    docs.append({"id": "cdef2", "text": "model\n  schema 1.1\ncondition condition(condition: string) {\n condition == \"condition(\"\n}\ntype condition\n"})
    docs.append({"id": "nl1", "text": "model\n  schema 1.1\n\f\ntype a \f\n\r\n\r\rtype b\n \n\t\n  \ftype c\f"})
    docs.append({"id": "nl2", "text": "model\r  schema 1.1\r\rtype a # c\r  relations # d\r    define r: [a] # e\r# full\r\r"})
    return docs
