"""Shared driver code for /verif/bin/check (python3, std-lib only).

Exit codes of a check: 0 = property held on everything explored (known findings are printed as KNOWN-FINDING lines),
1 = violation (a line `VIOLATION property=<id> replay=<path>` is printed), 2 = infrastructure failure (never a verdict).
"""
import hashlib
import json
import os
import re
import shutil
import subprocess
import sys
import tempfile
import time

VERIF = os.path.dirname(os.path.dirname(os.path.abspath(__file__)))
REPO = os.environ.get("VERIF_REPO", "/repo")
SEED = int(os.environ.get("VERIF_SEED", "1") or "1")
GOENV = dict(os.environ, GOFLAGS="-mod=mod", GOPROXY="off", GOSUMDB="off", GOTOOLCHAIN="local")
TLA_JAR = "/opt/veriftools/tla/tla2tools.jar"
TLA_CP = TLA_JAR + ":/opt/veriftools/tla/CommunityModules-deps.jar"
CACHE = os.path.join(VERIF, ".cache")


class Infra(Exception):
    """infrastructure failure -> exit 2"""


def log(*a):
    print(*a, flush=True)


class Scratch:
    def __init__(self):
        self.dir = tempfile.mkdtemp(prefix="verif-")

    def path(self, *p):
        return os.path.join(self.dir, *p)

    def cleanup(self):
        if os.environ.get("VERIF_KEEP"):        # debugging: leave the scratch directory (harness, traces, TLC output) in place
            log("scratch kept: " + self.dir)
            return
        shutil.rmtree(self.dir, ignore_errors=True)


def sh(cmd, cwd=None, env=None, timeout=None, check=True, stdout=None):
    r = subprocess.run(cmd, cwd=cwd, env=env, timeout=timeout, stdout=stdout or subprocess.PIPE, stderr=subprocess.STDOUT, text=True)
    if check and r.returncode != 0:
        raise Infra("command failed (%d): %s\n%s" % (r.returncode, " ".join(cmd), (r.stdout or "")[-4000:]))
    return r


_harness = {}


def build_harness(scratch, race=False):
    """Builds /verif/harness against the CURRENT working tree of the repository, with the verif hooks on."""
    key = (scratch.dir, race)
    if key in _harness:
        return _harness[key]
    src = os.path.join(VERIF, "harness")
    out = scratch.path("fgaharness-race" if race else "fgaharness")
    cmd = ["go", "build", "-tags", "verif"]
    # go.sum of the repository is the source of truth for module hashes
    shutil.copy(os.path.join(REPO, "pkg/go/go.sum"), os.path.join(src, "go.sum")) if REPO == "/repo" and not os.path.exists(os.path.join(src, "go.sum")) else None
    if REPO != "/repo":
        mod = open(os.path.join(src, "go.mod")).read().replace("/repo/pkg/go", os.path.join(REPO, "pkg/go"))
        alt = scratch.path("alt.mod")
        open(alt, "w").write(mod)
        shutil.copy(os.path.join(REPO, "pkg/go/go.sum"), scratch.path("alt.sum"))
        cmd += ["-modfile", alt]
    if race:
        cmd += ["-race"]
    cmd += ["-o", out, "."]
    t0 = time.time()
    r = subprocess.run(cmd, cwd=src, env=GOENV, stdout=subprocess.PIPE, stderr=subprocess.STDOUT, text=True)
    if r.returncode != 0:
        raise Infra("harness build failed (the repository does not compile with -tags verif?)\n" + r.stdout[-4000:])
    log("harness built in %.1fs%s" % (time.time() - t0, " (race)" if race else ""))
    _harness[key] = out
    return out


def run_harness(binary, args, timeout=3600):
    r = subprocess.run([binary] + args, env=GOENV, stdout=subprocess.PIPE, stderr=subprocess.STDOUT, text=True, timeout=timeout)
    if r.returncode != 0:
        raise Infra("harness %s failed (%d):\n%s" % (args[0], r.returncode, r.stdout[-4000:]))
    return r.stdout


def read_ndjson(path):
    out = []
    with open(path) as fh:
        for line in fh:
            line = line.strip()
            if line:
                out.append(json.loads(line))
    return out


def write_ndjson(path, recs):
    with open(path, "w") as fh:
        for r in recs:
            fh.write(json.dumps(r, separators=(",", ":")) + "\n")


# ------------------------------------------------------------------------------------------------ TLC

class TLCResult:
    def __init__(self):
        self.records = []
        self.generated = 0
        self.distinct = 0
        self.ok = False
        self.violated = []
        self.errors = []
        self.wall = 0.0
        self.coverage = {}
        self.cached = False
        self.tail = ""
        self.ints = {}


def _closure(specdir, module):
    """the specification files a module depends on (EXTENDS / INSTANCE, transitively) among those of /verif/spec"""
    seen, todo = [], [module]
    while todo:
        m = todo.pop()
        f = os.path.join(specdir, m + ".tla")
        if m in seen or not os.path.exists(f):
            continue
        seen.append(m)
        text = open(f).read()
        for grp in re.findall(r"^\s*EXTENDS\s+([^\n]+)", text, re.M):
            todo += [x.strip() for x in grp.split(",")]
        todo += re.findall(r"INSTANCE\s+(\w+)", text)
    return [os.path.join(specdir, m + ".tla") for m in seen]


def _spec_hash(files, cfg, extra, data_files=None):
    h = hashlib.sha256()
    for f in sorted(files):
        h.update(os.path.basename(f).encode())
        h.update(open(f, "rb").read())
    for name in sorted(data_files or {}):
        h.update(name.encode())
        h.update(open(data_files[name], "rb").read())
    h.update(cfg.encode())
    h.update(json.dumps(extra, sort_keys=True).encode())
    return h.hexdigest()[:24]


def run_tlc(module, cfg, scratch, data_files=None, workers=16, timeout=1800, simulate=None, cache=False, depth=None, seed=None,
            xss="64m", keep_raw=False, defs=None, tolerate_errors=False):
    """Runs TLC on spec/<module>.tla with the given cfg text in a scratch copy of /verif/spec.

    Records printed by the specification with PrintT(ToJson(..)) are returned parsed. With cache=True the parsed output is
    cached under /verif/.cache keyed by the content of the specification files the module depends on, the cfg, the options
    and the data files: TLC's output is a function of these only, never of the repository (callers pass cache=True only for
    runs whose data files are themselves generated from the specification, e.g. layout jobs - not for recorded traces)."""
    specdir = os.path.join(VERIF, "spec")
    files = [os.path.join(specdir, f) for f in os.listdir(specdir) if f.endswith(".tla")]
    extra = {"module": module, "simulate": simulate, "depth": depth, "seed": seed, "workers": workers if simulate else 0, "defs": defs}
    res = TLCResult()
    ck = None
    if cache:
        # keyed by the module's own dependency closure, the cfg, the options and the content of the data files handed over
        ck = os.path.join(CACHE, "tlc-" + _spec_hash(_closure(specdir, module), cfg, extra, data_files) + ".json")
        if os.path.exists(ck):
            try:
                d = json.load(open(ck))
                res.__dict__.update(d)
                res.cached = True
                return res
            except Exception:
                pass
    wd = tempfile.mkdtemp(prefix="tlc-", dir=scratch.dir)
    for f in files:
        shutil.copy(f, wd)
    for name, path in (data_files or {}).items():
        shutil.copy(path, os.path.join(wd, name))
    if defs:
        # a wrapper module with run-specific constant definitions (cfg files cannot express tuples); TLC re-evaluates
        # zero-arity definitions at every reference, literal tuples are the cheap way to hand over sequences
        base = module
        module = module + "Run"
        open(os.path.join(wd, module + ".tla"), "w").write("---- MODULE %s ----\nEXTENDS %s\n%s\n====\n" % (module, base, defs))
    open(os.path.join(wd, module + ".cfg"), "w").write(cfg)
    cmd = ["java", "-XX:+UseParallelGC", "-Xss" + xss, "-cp", TLA_CP, "tlc2.TLC", "-workers", str(workers), "-metadir", os.path.join(wd, "md"),
           "-config", module + ".cfg"]
    if simulate:
        cmd += ["-simulate", "num=%d" % simulate]
        if depth:
            cmd += ["-depth", str(depth)]
    if seed is not None:
        cmd += ["-seed", str(seed)]
    cmd += [module + ".tla"]
    t0 = time.time()
    raw = os.path.join(wd, "tlc.out")
    with open(raw, "w") as fh:
        try:
            r = subprocess.run(cmd, cwd=wd, stdout=fh, stderr=subprocess.STDOUT, timeout=timeout)
        except subprocess.TimeoutExpired:
            raise Infra("TLC timed out after %ds on %s" % (timeout, module))
    res.wall = time.time() - t0
    other = []
    with open(raw) as fh:
        for line in fh:
            if line.startswith('"{'):
                try:
                    res.records.append(json.loads(json.loads(line)))
                    continue
                except Exception:
                    pass
            other.append(line.rstrip("\n"))
    text = "\n".join(other)
    res.tail = "\n".join(other[-60:])
    # integer-valued variables of the last state TLC printed (the end of a counterexample): which run / trace / position it was
    res.ints = {m.group(1): int(m.group(2)) for m in re.finditer(r"^/\\ (\w+) = (-?\d+)$", text, re.M)}
    m = re.search(r"(\d+) states generated, (\d+) distinct states found", text)
    if m:
        res.generated, res.distinct = int(m.group(1)), int(m.group(2))
    res.violated = re.findall(r"Invariant (\S+) is violated", text) + re.findall(r"Action property (\S+) is violated", text) \
        + re.findall(r"The invariant of (\S+) is equal to FALSE", text)      # a constant-level invariant is evaluated before the search starts
    res.errors = [l for l in other if l.startswith("Error:") and "is violated" not in l and "behavior up to this point" not in l and "is equal to FALSE" not in l]
    res.ok = ("Model checking completed. No error has been found." in text) or (simulate and not res.errors and not res.violated)
    if keep_raw:
        res.raw = text
    if not res.ok and not res.violated:
        if tolerate_errors and res.errors:
            # a recorded trace TLC cannot even evaluate (a field the specification reads is missing or of another shape): the caller
            # treats it like a rejected trace
            res.violated = ["EvaluationError: " + res.errors[0][:200]]
            return res
        raise Infra("TLC failed on %s:\n%s" % (module, res.tail[-3000:]))
    shutil.rmtree(wd, ignore_errors=True)
    if ck:
        os.makedirs(CACHE, exist_ok=True)
        tmp = ck + ".%d.tmp" % os.getpid()
        json.dump({k: v for k, v in res.__dict__.items() if k not in ("cached", "raw")}, open(tmp, "w"))
        os.replace(tmp, ck)
    return res


# ------------------------------------------------------------------------------------------------ findings, evidence, verdicts

def load_findings():
    p = os.path.join(VERIF, "known_findings.json")
    if not os.path.exists(p):
        return []
    return json.load(open(p))["findings"]


CURRENT = []          # the Check objects of this process (main_wrapper looks at them when a later stage fails)


class Check:
    """Collects what one check run did; writes evidence; computes the exit code."""

    def __init__(self, pid, tier, level):
        self.pid, self.tier, self.level = pid, tier, level
        self.t0 = time.time()
        self.violations = []
        self.known = {}          # finding id -> count of observations classified under it
        self.drift = []
        self.cov = {"samples": []}
        self.assumptions = []
        self.notes = []
        CURRENT.append(self)
        # replay files of earlier runs of this property are stale
        rd = os.path.join(VERIF, "replays")
        if os.path.isdir(rd):
            for f in os.listdir(rd):
                if f.startswith(pid + "-"):
                    os.remove(os.path.join(rd, f))

    def violation(self, what, replay):
        """Registers a violation; the replay record is written to /verif/replays and the VIOLATION line is printed."""
        if len(self.violations) >= 25:
            self.violations.append(None)
            return
        body = json.dumps(replay, sort_keys=True)
        name = "%s-%s.json" % (self.pid, hashlib.sha256(body.encode()).hexdigest()[:12])
        os.makedirs(os.path.join(VERIF, "replays"), exist_ok=True)
        path = os.path.join(VERIF, "replays", name)
        replay = dict(replay, property=self.pid, what=what)
        json.dump(replay, open(path, "w"), indent=1, sort_keys=True)
        self.violations.append(path)
        log("VIOLATION property=%s replay=%s" % (self.pid, path))
        log("  " + what[:600])

    def known_finding(self, fid, n=1):
        self.known[fid] = self.known.get(fid, 0) + n

    def sample(self, s):
        if len(self.cov["samples"]) < 6:
            self.cov["samples"].append(s)

    def add(self, key, n=1):
        self.cov[key] = self.cov.get(key, 0) + n

    def finish(self):
        wall = time.time() - self.t0
        cov = dict(self.cov)
        cov["known_finding_observations"] = self.known
        cov["drift"] = self.drift[:10]
        cov["notes"] = self.notes
        ev = {"property_id": self.pid, "tier": self.tier, "seed": SEED, "level": self.level, "coverage": cov,
              "assumptions": self.assumptions, "wall_s": round(wall, 2), "violations": len(self.violations)}
        os.makedirs(os.path.join(VERIF, "evidence"), exist_ok=True)
        # (a run against another tree - VERIF_REPO, a seeded change under test - leaves the evidence of the repository itself alone)
        name = self.pid + (".json" if REPO == "/repo" else ".other-tree.json")
        json.dump(ev, open(os.path.join(VERIF, "evidence", name), "w"), indent=1, sort_keys=True)
        for d in self.drift[:10]:
            log("DRIFT: " + str(d)[:400])
        if self.violations:
            log("%s: %d violation(s) in %.1fs" % (self.pid, len(self.violations), wall))
            return 1
        log("%s: OK (%s tier, %.1fs)" % (self.pid, self.tier, wall))
        return 0


def main_wrapper(fn):
    try:
        rc = fn()
    except (Infra, subprocess.TimeoutExpired, RecursionError, ValueError, KeyError, IndexError, TypeError, OSError) as e:
        # (a driver that trips over what the code under test produced - a record it cannot decode, a missing field - has no verdict of
        # its own either: exit 2, unless real violations were registered before)
        import traceback
        log("INFRASTRUCTURE FAILURE (exit 2, not a verdict): %s: %s" % (type(e).__name__, str(e)[:2000]))
        if not isinstance(e, (Infra, subprocess.TimeoutExpired)):
            log(traceback.format_exc()[-1500:])
        rc = 2
        # violations registered before the failing stage are observations of the real code and stay a verdict
        for chk in CURRENT:
            if chk.violations:
                chk.notes.append("a later stage of the check failed for infrastructure reasons: " + str(e)[:300])
                rc = chk.finish()
    sys.exit(rc)
