package main

import (
	openfgav1 "github.com/openfga/api/proto/openfga/v1"
	"github.com/openfga/language/pkg/go/utils"
)

func utilsIsRelationAssignable(u *openfgav1.Userset) bool { return utils.IsRelationAssignable(u) }
