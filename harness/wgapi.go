package main

import (
	"encoding/json"
	"flag"
	"fmt"
	"sort"

	"github.com/openfga/language/pkg/go/graph"
)

// wgapi-replay steps the real weighted graph object through the behaviours TLC generated from spec/WGraphApi.tla
// (operation + arguments per step) and reports, after every call, the return value and the projection of the real state
// onto the abstract state of the specification.

func init() {
	commands["wgapi-replay"] = wgapiReplay
}

type apiStep struct {
	Op   string `json:"op"`
	Args []any  `json:"args"`
}

func wgapiReplay(args []string) error {
	fs := flag.NewFlagSet("wgapi-replay", flag.ExitOnError)
	in := fs.String("in", "", "input ndjson {id, steps: [{op, args}]}")
	out := fs.String("out", "", "output ndjson {id, steps: [{ret, post}]}")
	fs.Parse(args)
	w, err := newNDWriter(*out)
	if err != nil {
		return err
	}
	defer w.close()
	nodeTypes := map[string]graph.NodeType{"type": graph.SpecificType, "rel": graph.SpecificTypeAndRelation, "op": graph.OperatorNode, "wildcard": graph.SpecificTypeWildcard}
	nodeTypeNames := map[graph.NodeType]string{}
	for k, v := range nodeTypes {
		nodeTypeNames[v] = k
	}
	kinds := map[string]graph.EdgeType{"direct": graph.DirectEdge, "rewrite": graph.RewriteEdge, "ttu": graph.TTUEdge, "computed": graph.ComputedEdge}
	kindNames := map[graph.EdgeType]string{}
	for k, v := range kinds {
		kindNames[v] = k
	}
	return readNDJSON(*in, func(line []byte) error {
		var inp struct {
			ID    string    `json:"id"`
			Steps []apiStep `json:"steps"`
		}
		if err := json.Unmarshal(line, &inp); err != nil {
			return err
		}
		wg := graph.NewWeightedAuthorizationModelGraph()
		str := func(x any) string { s, _ := x.(string); return s }
		node := func(l string) *graph.WeightedAuthorizationModelNode {
			n, _ := wg.GetNodeByID(l)
			return n
		}
		results := []map[string]any{}
		// condition lists handed to AddEdge: the caller keeps them (one slice per distinct list, re-used like a constant would be,
		// with spare capacity behind the elements) and looks at them again after every call
		type callerSlice struct {
			s    []string
			snap []string
		}
		callerSlices := map[string]*callerSlice{}
		for _, st := range inp.Steps {
			ret := ""
			func() {
				defer func() {
					if r := recover(); r != nil {
						ret = "panic: " + fmt.Sprint(r)
					}
				}()
				switch st.Op {
				case "AddNode":
					wg.AddNode(str(st.Args[0]), str(st.Args[0]), nodeTypes[str(st.Args[1])])
				case "GetOrAddNode":
					wg.GetOrAddNode(str(st.Args[0]), str(st.Args[0]), nodeTypes[str(st.Args[1])])
				case "AddEdge":
					key := fmt.Sprint(st.Args[4])
					cs := callerSlices[key]
					if cs == nil {
						full := make([]string, 0, 8)
						if l, ok := st.Args[4].([]any); ok {
							for _, c := range l {
								full = append(full, str(c))
							}
						}
						n := len(full)
						for len(full) < cap(full) {
							full = append(full, "~spare~")
						}
						cs = &callerSlice{s: full[:n], snap: append([]string{}, full...)}
						callerSlices[key] = cs
					}
					conds := cs.s
					wg.AddEdge(str(st.Args[0]), str(st.Args[1]), kinds[str(st.Args[2])], str(st.Args[3]), conds)
				case "UpsertEdge":
					if err := wg.UpsertEdge(node(str(st.Args[0])), node(str(st.Args[1])), kinds[str(st.Args[2])], str(st.Args[3]), str(st.Args[4])); err != nil {
						ret = "error"
					}
				case "HasEdge":
					ret = fmt.Sprint(wg.HasEdge(node(str(st.Args[0])), node(str(st.Args[1])), kinds[str(st.Args[2])], str(st.Args[3])))
				default:
					ret = "unknown operation"
				}
			}()
			// projection
			nodes := [][]any{}
			for l, n := range wg.GetNodes() {
				wc := append([]string{}, n.GetWildcards()...)
				nodes = append(nodes, []any{l, nodeTypeNames[n.GetNodeType()], wc, n.GetUniqueLabel(), n.GetLabel()})
			}
			sort.Slice(nodes, func(i, j int) bool { return nodes[i][0].(string) < nodes[j][0].(string) })
			edges := [][]any{}
			for f, es := range wg.GetEdges() {
				for i, e := range es {
					to, from := "<nil>", "<nil>"
					if e.GetTo() != nil {
						to = e.GetTo().GetUniqueLabel()
					}
					if e.GetFrom() != nil {
						from = e.GetFrom().GetUniqueLabel()
					}
					edges = append(edges, []any{f, i + 1, to, kindNames[e.GetEdgeType()], e.GetTuplesetRelation(), append([]string{}, e.GetConditions()...), from,
						len(e.GetWeights()), len(e.GetWildcards())})
				}
			}
			sort.Slice(edges, func(i, j int) bool {
				if edges[i][0].(string) != edges[j][0].(string) {
					return edges[i][0].(string) < edges[j][0].(string)
				}
				return edges[i][1].(int) < edges[j][1].(int)
			})
			written := false
			for _, cs := range callerSlices {
				full := cs.s[:cap(cs.s)]
				for i := range full {
					written = written || full[i] != cs.snap[i]
				}
			}
			results = append(results, map[string]any{"ret": ret, "nodes": nodes, "edges": edges, "caller_slice_written": written})
		}
		return w.write(map[string]any{"id": inp.ID, "steps": results})
	})
}
