package main

import (
	"encoding/json"
	"flag"
	"fmt"
	"runtime"
	"sort"
	"strings"
	"time"

	openfgav1 "github.com/openfga/api/proto/openfga/v1"
	"github.com/openfga/language/pkg/go/graph"
	"github.com/openfga/language/pkg/go/transformer"
	"github.com/openfga/language/pkg/go/utils"
	"github.com/openfga/language/pkg/go/validation"
	"google.golang.org/protobuf/encoding/protojson"
)

func init() {
	commands["c08-text"] = c08Text
	commands["c08-degenerate"] = c08Degenerate
	commands["c08-pump"] = c08Pump
}

// outcome of one entry point: "ok", "error" or "panic: ..."
func total(f func() error) (res string) {
	defer func() {
		if r := recover(); r != nil {
			res = "panic: " + fmt.Sprint(r)
		}
	}()
	if err := f(); err != nil {
		return "error"
	}
	return "ok"
}

// totalWithin runs f like total, but gives up waiting after the deadline: a call that does not return is reported as "hang" (its
// goroutine cannot be stopped and keeps a core busy until the process ends, so the caller stops after a few of them)
func totalWithin(f func() error, d time.Duration) string {
	done := make(chan string, 1)
	go func() { done <- total(f) }()
	select {
	case r := <-done:
		return r
	case <-time.After(d):
		return "hang"
	}
}

var coreModule = transformer.ModuleFile{Name: "core.fga", Contents: "module core\n\ntype user\n\ntype doc\n  relations\n    define owner: [user]\n"}

func textEntries(text string) map[string]func() error {
	return map[string]func() error{
		"TransformDSLToProto": func() error { _, err := transformer.TransformDSLToProto(text); return err },
		"TransformDSLToJSON":  func() error { _, err := transformer.TransformDSLToJSON(text); return err },
		"TransformModularDSLToProto": func() error {
			_, _, err := transformer.TransformModularDSLToProto(text)
			return err
		},
		"TransformModuleFilesToModel": func() error {
			_, err := transformer.TransformModuleFilesToModel([]transformer.ModuleFile{coreModule, {Name: "x.fga", Contents: text}}, "1.2")
			return err
		},
		// the same contents under a file name the list already has (nothing says names are unique)
		"TransformModuleFilesToModel/samename": func() error {
			_, err := transformer.TransformModuleFilesToModel([]transformer.ModuleFile{coreModule, {Name: coreModule.Name, Contents: text}}, "1.2")
			return err
		},
		"TransformJSONStringToDSL": func() error { _, err := transformer.TransformJSONStringToDSL(text); return err },
		"LoadJSONStringToProto":    func() error { _, err := transformer.LoadJSONStringToProto(text); return err },
		"TransformModFile":         func() error { _, err := transformer.TransformModFile(text); return err },
		"Validators": func() error {
			validation.ValidateUser(text)
			validation.ValidateObject(text)
			validation.ValidateRelation(text)
			validation.ValidateType(text)
			validation.ValidateRelationshipCondition(text)
			return nil
		},
	}
}

var hangs int

func c08Text(args []string) error {
	fs := flag.NewFlagSet("c08-text", flag.ExitOnError)
	in := fs.String("in", "", "input ndjson {id, text}")
	out := fs.String("out", "", "output ndjson")
	fs.Parse(args)
	w, err := newNDWriter(*out)
	if err != nil {
		return err
	}
	defer w.close()
	return readNDJSON(*in, func(line []byte) error {
		var inp struct {
			ID   string `json:"id"`
			Text string `json:"text"`
		}
		if err := json.Unmarshal(line, &inp); err != nil {
			return err
		}
		res := map[string]string{}
		t0 := time.Now()
		for name, f := range textEntries(inp.Text) {
			if hangs >= 4 {
				res[name] = "notrun"
				continue
			}
			res[name] = totalWithin(f, 20*time.Second)
			if res[name] == "hang" {
				hangs++
			}
		}
		return w.write(map[string]any{"id": inp.ID, "results": res, "ms": time.Since(t0).Milliseconds(), "len": len(inp.Text)})
	})
}

// ---- degenerate protobuf models ----

func degBase(b int) *openfgav1.AuthorizationModel {
	var m *openfgav1.AuthorizationModel
	switch b {
	case 1:
		m = transformer.MustTransformDSLToProto(dslBig)
	case 2:
		m, _ = transformer.TransformModuleFilesToModel(newPool().files["f_ok"], "1.2")
	default:
		m = transformer.MustTransformDSLToProto("model\n  schema 1.1\n\ntype user\n\ntype doc\n  relations\n    define p: [doc]\n    define a: [user, user:* with c]\n    define x: ([user] or a) but not (a from p and a)\n\ncondition c(xs: list<string>, m: map<int>) {\n  xs[0] == \"a\"\n}\n")
	}
	return m
}

func sortedKeys[V any](m map[string]V) []string {
	k := []string{}
	for x := range m {
		k = append(k, x)
	}
	sort.Strings(k)
	return k
}

// findRewrite returns pointers to all rewrite nodes of the wanted oneof kind, in a deterministic order
func findRewrites(m *openfgav1.AuthorizationModel, want string) []*openfgav1.Userset {
	var out []*openfgav1.Userset
	var walk func(u *openfgav1.Userset)
	walk = func(u *openfgav1.Userset) {
		if u == nil {
			return
		}
		k := absRw(u).K
		if want == "any" || k == want {
			out = append(out, u)
		}
		switch rw := u.GetUserset().(type) {
		case *openfgav1.Userset_Union:
			for _, c := range rw.Union.GetChild() {
				walk(c)
			}
		case *openfgav1.Userset_Intersection:
			for _, c := range rw.Intersection.GetChild() {
				walk(c)
			}
		case *openfgav1.Userset_Difference:
			walk(rw.Difference.GetBase())
			walk(rw.Difference.GetSubtract())
		}
	}
	for _, td := range m.GetTypeDefinitions() {
		for _, r := range sortedKeys(td.GetRelations()) {
			walk(td.GetRelations()[r])
		}
	}
	return out
}

func punch(m *openfgav1.AuthorizationModel, kind string, site int) {
	pickRw := func(want string) *openfgav1.Userset {
		l := findRewrites(m, want)
		if len(l) == 0 {
			l = findRewrites(m, "any")
		}
		if len(l) == 0 {
			return &openfgav1.Userset{}
		}
		return l[site%len(l)]
	}
	var tds []*openfgav1.TypeDefinition
	for _, td := range m.GetTypeDefinitions() {
		if td != nil && len(td.GetRelations()) > 0 {
			tds = append(tds, td)
		}
	}
	if len(tds) == 0 {
		return
	}
	td := tds[site%len(tds)]
	rels := sortedKeys(td.GetRelations())
	rel := rels[site%len(rels)]
	conds := sortedKeys(m.GetConditions())
	var cond *openfgav1.Condition
	if len(conds) > 0 {
		cond = m.GetConditions()[conds[site%len(conds)]]
	}
	switch kind {
	case "userset_nil":
		td.Relations[rel] = nil
	case "userset_empty_oneof":
		pickRw("any").Userset = nil
	case "union_nil_usersets":
		pickRw("union").Userset = &openfgav1.Userset_Union{}
	case "union_no_children":
		pickRw("union").Userset = &openfgav1.Userset_Union{Union: &openfgav1.Usersets{}}
	case "union_nil_child":
		pickRw("union").Userset = &openfgav1.Userset_Union{Union: &openfgav1.Usersets{Child: []*openfgav1.Userset{nil, {Userset: &openfgav1.Userset_This{}}}}}
	case "inter_no_children":
		pickRw("inter").Userset = &openfgav1.Userset_Intersection{Intersection: &openfgav1.Usersets{}}
	case "diff_nil":
		pickRw("diff").Userset = &openfgav1.Userset_Difference{}
	case "diff_no_base":
		pickRw("diff").Userset = &openfgav1.Userset_Difference{Difference: &openfgav1.Difference{Subtract: &openfgav1.Userset{Userset: &openfgav1.Userset_This{This: &openfgav1.DirectUserset{}}}}}
	case "diff_no_subtract":
		pickRw("diff").Userset = &openfgav1.Userset_Difference{Difference: &openfgav1.Difference{Base: &openfgav1.Userset{Userset: &openfgav1.Userset_This{This: &openfgav1.DirectUserset{}}}}}
	case "ttu_nil":
		pickRw("ttu").Userset = &openfgav1.Userset_TupleToUserset{}
	case "ttu_no_tupleset":
		pickRw("ttu").Userset = &openfgav1.Userset_TupleToUserset{TupleToUserset: &openfgav1.TupleToUserset{ComputedUserset: &openfgav1.ObjectRelation{Relation: rel}}}
	case "ttu_no_computed":
		pickRw("ttu").Userset = &openfgav1.Userset_TupleToUserset{TupleToUserset: &openfgav1.TupleToUserset{Tupleset: &openfgav1.ObjectRelation{Relation: rel}}}
	case "cu_nil":
		pickRw("cu").Userset = &openfgav1.Userset_ComputedUserset{}
	case "type_metadata_nil":
		td.Metadata = nil
	case "relations_metadata_nil":
		if td.Metadata != nil {
			td.Metadata.Relations = nil
		}
	case "relation_metadata_missing":
		if td.Metadata != nil {
			delete(td.Metadata.Relations, rel)
		}
	case "relation_metadata_nil_value":
		if td.Metadata != nil && td.Metadata.Relations != nil {
			td.Metadata.Relations[rel] = nil
		}
	case "restriction_nil":
		if md := td.GetMetadata().GetRelations()[rel]; md != nil {
			md.DirectlyRelatedUserTypes = append(md.DirectlyRelatedUserTypes, nil)
		}
	case "restriction_no_type":
		if md := td.GetMetadata().GetRelations()[rel]; md != nil {
			md.DirectlyRelatedUserTypes = append(md.DirectlyRelatedUserTypes, &openfgav1.RelationReference{})
		}
	case "wildcard_and_relation":
		if md := td.GetMetadata().GetRelations()[rel]; md != nil {
			md.DirectlyRelatedUserTypes = append(md.DirectlyRelatedUserTypes, &openfgav1.RelationReference{Type: "user", RelationOrWildcard: &openfgav1.RelationReference_Wildcard{}})
		}
	case "restriction_empty_relation_first", "restriction_nil_wildcard_first", "restriction_nil_first":
		// the same malformed entries at the HEAD of the list (nothing precedes them that a builder could fall back on)
		if md := td.GetMetadata().GetRelations()[rel]; md != nil {
			var rr *openfgav1.RelationReference
			switch kind {
			case "restriction_empty_relation_first":
				rr = &openfgav1.RelationReference{Type: "user", RelationOrWildcard: &openfgav1.RelationReference_Relation{Relation: ""}}
			case "restriction_nil_wildcard_first":
				rr = &openfgav1.RelationReference{Type: "user", RelationOrWildcard: &openfgav1.RelationReference_Wildcard{}}
			}
			md.DirectlyRelatedUserTypes = append([]*openfgav1.RelationReference{rr}, md.DirectlyRelatedUserTypes...)
		}
	case "typedef_nil":
		m.TypeDefinitions = append(m.TypeDefinitions, nil)
	case "typedef_relations_nil":
		td.Relations = nil
	case "type_name_empty":
		td.Type = ""
	case "relation_name_empty":
		td.Relations[""] = td.Relations[rel]
	case "relation_name_spaces":
		td.Relations["a b\n#c"] = td.Relations[rel]
	case "conditions_nil_value":
		if m.Conditions == nil {
			m.Conditions = map[string]*openfgav1.Condition{}
		}
		m.Conditions["ghost"] = nil
	case "condition_key_mismatch":
		if cond != nil {
			m.Conditions["other_key"] = cond
		}
	case "condition_params_nil":
		if cond != nil {
			cond.Parameters = nil
		}
	case "condition_param_nil":
		if cond != nil && cond.Parameters != nil {
			cond.Parameters["ghost"] = nil
		}
	case "list_param_without_generic":
		if cond != nil {
			if cond.Parameters == nil {
				cond.Parameters = map[string]*openfgav1.ConditionParamTypeRef{}
			}
			cond.Parameters["l"] = &openfgav1.ConditionParamTypeRef{TypeName: openfgav1.ConditionParamTypeRef_TYPE_NAME_LIST}
		}
	case "list_param_empty_generics", "map_param_empty_generics":
		// (the empty, non-nil list is what the DSL listener itself builds for every parameter; protojson reads "[]" as nil)
		if cond != nil {
			if cond.Parameters == nil {
				cond.Parameters = map[string]*openfgav1.ConditionParamTypeRef{}
			}
			tn := openfgav1.ConditionParamTypeRef_TYPE_NAME_LIST
			if kind == "map_param_empty_generics" {
				tn = openfgav1.ConditionParamTypeRef_TYPE_NAME_MAP
			}
			cond.Parameters["e"] = &openfgav1.ConditionParamTypeRef{TypeName: tn, GenericTypes: []*openfgav1.ConditionParamTypeRef{}}
		}
	case "generic_type_nil_entry":
		if cond != nil {
			if cond.Parameters == nil {
				cond.Parameters = map[string]*openfgav1.ConditionParamTypeRef{}
			}
			cond.Parameters["n"] = &openfgav1.ConditionParamTypeRef{TypeName: openfgav1.ConditionParamTypeRef_TYPE_NAME_LIST, GenericTypes: []*openfgav1.ConditionParamTypeRef{nil}}
		}
	case "map_param_without_generic":
		if cond != nil {
			if cond.Parameters == nil {
				cond.Parameters = map[string]*openfgav1.ConditionParamTypeRef{}
			}
			cond.Parameters["mm"] = &openfgav1.ConditionParamTypeRef{TypeName: openfgav1.ConditionParamTypeRef_TYPE_NAME_MAP, GenericTypes: []*openfgav1.ConditionParamTypeRef{nil}}
		}
	case "param_type_unspecified":
		if cond != nil && cond.Parameters != nil {
			cond.Parameters["u"] = &openfgav1.ConditionParamTypeRef{}
		}
	case "condition_metadata_nil":
		if cond != nil {
			cond.Metadata = nil
		}
	case "source_info_nil":
		if td.Metadata != nil {
			td.Metadata.SourceInfo = nil
			td.Metadata.Module = "m"
		}
	case "schema_empty":
		m.SchemaVersion = ""
	case "restriction_unknown_condition":
		if md := td.GetMetadata().GetRelations()[rel]; md != nil {
			md.DirectlyRelatedUserTypes = append(md.DirectlyRelatedUserTypes, &openfgav1.RelationReference{Type: "user", Condition: "nope"})
		}
	case "duplicate_typedef":
		m.TypeDefinitions = append(m.TypeDefinitions, td)
	case "ttu_on_missing_tupleset":
		pickRw("ttu").Userset = &openfgav1.Userset_TupleToUserset{TupleToUserset: &openfgav1.TupleToUserset{Tupleset: &openfgav1.ObjectRelation{Relation: "zz_missing"}, ComputedUserset: &openfgav1.ObjectRelation{Relation: rel}}}
	case "module_without_file":
		if td.Metadata == nil {
			td.Metadata = &openfgav1.Metadata{}
		}
		td.Metadata.Module = "mod"
		td.Metadata.SourceInfo = nil
	case "file_without_module":
		if td.Metadata == nil {
			td.Metadata = &openfgav1.Metadata{}
		}
		td.Metadata.Module = ""
		td.Metadata.SourceInfo = &openfgav1.SourceInfo{File: "x.fga"}
	}
}

func modelEntries(m *openfgav1.AuthorizationModel) map[string]func() error {
	return map[string]func() error{
		"TransformJSONProtoToDSL": func() error { _, err := transformer.TransformJSONProtoToDSL(m); return err },
		"TransformJSONProtoToDSL+source": func() error {
			_, err := transformer.TransformJSONProtoToDSL(m, transformer.WithIncludeSourceInformation(true))
			return err
		},
		"TransformJSONStringToDSL": func() error {
			js, err := protojson.Marshal(m)
			if err != nil {
				return nil // not representable as JSON: not an input of this entry point
			}
			_, err = transformer.TransformJSONStringToDSL(string(js))
			return err
		},
		"WeightedGraphBuilder.Build": func() error {
			g, err := graph.NewWeightedAuthorizationModelGraphBuilder().Build(m)
			if err == nil && g != nil {
				for _, n := range g.GetNodes() {
					n.GetWeights()
					n.GetWildcards()
				}
			}
			return err
		},
		"NewAuthorizationModelGraph": func() error {
			g, err := graph.NewAuthorizationModelGraph(m)
			if err != nil {
				return err
			}
			g.GetDOT()
			g.GetCycles()
			r, err := g.Reversed()
			if err != nil {
				return err
			}
			r.GetDOT()
			for _, td := range m.GetTypeDefinitions() {
				g.PathExists(td.GetType(), td.GetType())
			}
			return nil
		},
		"utils": func() error {
			for _, td := range m.GetTypeDefinitions() {
				for name, rw := range td.GetRelations() {
					utils.IsRelationAssignable(rw)
					utils.GetModuleForObjectTypeRelation(td, name)
				}
				utils.GetModuleForObjectTypeRelation(td, "zz")
			}
			return nil
		},
	}
}

func c08Degenerate(args []string) error {
	fs := flag.NewFlagSet("c08-degenerate", flag.ExitOnError)
	in := fs.String("in", "", "input ndjson {base, holes}")
	out := fs.String("out", "", "output ndjson")
	fs.Parse(args)
	w, err := newNDWriter(*out)
	if err != nil {
		return err
	}
	defer w.close()
	n := 0
	return readNDJSON(*in, func(line []byte) error {
		var inp struct {
			Base  int     `json:"base"`
			Holes [][]any `json:"holes"`
		}
		if err := json.Unmarshal(line, &inp); err != nil {
			return err
		}
		n++
		m := degBase(inp.Base)
		// holes are applied in a deterministic order
		sort.Slice(inp.Holes, func(i, j int) bool { return fmt.Sprint(inp.Holes[i]) < fmt.Sprint(inp.Holes[j]) })
		for _, h := range inp.Holes {
			kind, _ := h[0].(string)
			site, _ := h[1].(float64)
			func() {
				defer func() { recover() }() // a hole that cannot be punched into this base is skipped
				punch(m, kind, int(site))
			}()
		}
		res := map[string]string{}
		for name, f := range modelEntries(m) {
			res[name] = total(f)
		}
		return w.write(map[string]any{"id": fmt.Sprintf("d%d", n), "base": inp.Base, "holes": inp.Holes, "results": res})
	})
}

// ---- work growth on pumped inputs ----

func pumpModel(family string, n int) *openfgav1.AuthorizationModel {
	var sb strings.Builder
	sb.WriteString("model\n  schema 1.1\n\ntype user\n\ntype doc\n  relations\n    define p: [doc]\n")
	switch family {
	case "chain": // r0: r1, r1: r2, ...
		for i := 0; i < n; i++ {
			fmt.Fprintf(&sb, "    define r%d: r%d\n", i, i+1)
		}
		fmt.Fprintf(&sb, "    define r%d: [user]\n", n)
	case "ladder3": // r_i: r_{i+1} or r_{i+1} or r_{i+1}
		for i := 0; i < n; i++ {
			fmt.Fprintf(&sb, "    define r%d: r%d or r%d or r%d\n", i, i+1, i+1, i+1)
		}
		fmt.Fprintf(&sb, "    define r%d: [user]\n", n)
	case "diamonds": // r_i: a_i or b_i ; a_i: r_{i+1} ; b_i: r_{i+1}
		for i := 0; i < n; i++ {
			fmt.Fprintf(&sb, "    define r%d: a%d or b%d\n    define a%d: r%d\n    define b%d: r%d\n", i, i, i, i, i+1, i, i+1)
		}
		fmt.Fprintf(&sb, "    define r%d: [user]\n", n)
	case "wilddiamonds", "wildladder": // the diamonds / a two-way ladder over a relation that admits TWO public types: every node on the way merges both lists twice
		for i := 0; i < n; i++ {
			if family == "wilddiamonds" {
				fmt.Fprintf(&sb, "    define r%d: a%d or b%d\n    define a%d: r%d\n    define b%d: r%d\n", i, i, i, i, i+1, i, i+1)
			} else {
				fmt.Fprintf(&sb, "    define r%d: r%d or r%d\n", i, i+1, i+1)
			}
		}
		fmt.Fprintf(&sb, "    define r%d: [user:*, emp:*, user]\n\ntype emp\n", n)
	case "ttuchain": // r_i: [user] or r_{i+1} from p
		for i := 0; i < n; i++ {
			fmt.Fprintf(&sb, "    define r%d: [user] or r%d from p\n", i, i+1)
		}
		fmt.Fprintf(&sb, "    define r%d: [user]\n", n)
	case "usersets": // r_i: [user, doc#r_{i+1}, doc#r_{i+2}]
		for i := 0; i < n; i++ {
			fmt.Fprintf(&sb, "    define r%d: [user, doc#r%d, doc#r%d]\n", i, i+1, min(i+2, n))
		}
		fmt.Fprintf(&sb, "    define r%d: [user]\n", n)
	case "clique": // every relation a union of all the others: the number of elementary cycles explodes
		for i := 0; i < n; i++ {
			fmt.Fprintf(&sb, "    define r%d: [user]", i)
			for j := 0; j < n; j++ {
				if j != i {
					fmt.Fprintf(&sb, " or r%d", j)
				}
			}
			sb.WriteString("\n")
		}
	case "nestleft", "nestright", "nestmixed": // operators nested n deep: (((a or a) or a) or a) / a or (a or (a or a)) / alternating operators, both sides
		ops := []string{"or", "and", "but not"}
		expr := "a"
		for i := 0; i < n; i++ {
			op := "or"
			if family == "nestmixed" {
				op = ops[i%3]
			}
			switch {
			case family == "nestleft" || (family == "nestmixed" && i%2 == 0):
				expr = "(" + expr + ") " + op + " a"
			default:
				expr = "a " + op + " (" + expr + ")"
			}
		}
		sb.WriteString("    define a: [user]\n    define w: " + expr + "\n")
	case "wideunion":
		sb.WriteString("    define a: [user]\n    define w: a")
		for i := 0; i < n; i++ {
			sb.WriteString(" or a")
		}
		sb.WriteString("\n")
	}
	return transformer.MustTransformDSLToProto(sb.String())
}

// measure runs f three times; it returns the time and the heap allocations of the FIRST run (the parser caches what it
// learnt about an input: the first encounter is the work an adversarial input costs) and the minimal time of all runs.
func measure(f func()) (int64, uint64, int64) {
	best := int64(1) << 62
	var first int64
	var mallocs uint64
	for i := 0; i < 3; i++ {
		var a, b runtime.MemStats
		runtime.ReadMemStats(&a)
		t0 := time.Now()
		f()
		d := time.Since(t0).Microseconds()
		runtime.ReadMemStats(&b)
		if d < best {
			best = d
		}
		if i == 0 {
			first = d
			mallocs = b.Mallocs - a.Mallocs
		}
		if d > 300000 {
			break
		}
	}
	return first, mallocs, best
}

func c08Pump(args []string) error {
	fs := flag.NewFlagSet("c08-pump", flag.ExitOnError)
	in := fs.String("in", "", "input ndjson: {family, kind: text|model, prefix, unit, suffix, entry, ns}")
	out := fs.String("out", "", "output ndjson")
	budget := fs.Int64("budget", 4000, "stop a family when one call takes longer than this many milliseconds")
	fs.Parse(args)
	w, err := newNDWriter(*out)
	if err != nil {
		return err
	}
	defer w.close()
	// warm the parser caches
	transformer.TransformDSLToProto(dslBig)
	return readNDJSON(*in, func(line []byte) error {
		var inp struct {
			Family string `json:"family"`
			Kind   string `json:"kind"`
			Prefix string `json:"prefix"`
			Unit   string `json:"unit"`
			Suffix string `json:"suffix"`
			Entry  string `json:"entry"`
			Ns     []int  `json:"ns"`
		}
		if err := json.Unmarshal(line, &inp); err != nil {
			return err
		}
		type pt struct {
			N       int    `json:"n"`
			Us      int64  `json:"us"`    // first run
			MinUs   int64  `json:"minus"` // fastest of up to three runs
			Mallocs uint64 `json:"mallocs"`
			Len     int    `json:"len"`
			Res     string `json:"res"`
		}
		pts := []pt{}
		for _, n := range inp.Ns {
			var f func() error
			length := 0
			if inp.Kind == "model" {
				var m *openfgav1.AuthorizationModel
				func() {
					defer func() { recover() }()
					m = pumpModel(inp.Family, n)
				}()
				if m == nil {
					break
				}
				js, _ := protojson.Marshal(m)
				length = len(js)
				f = modelEntries(m)[inp.Entry]
			} else {
				text := inp.Prefix + strings.Repeat(inp.Unit, n) + inp.Suffix
				length = len(text)
				f = textEntries(text)[inp.Entry]
			}
			if f == nil {
				return fmt.Errorf("unknown entry %s", inp.Entry)
			}
			res := ""
			var us, minus int64
			var mallocs uint64
			done := make(chan struct{})
			go func() {
				us, mallocs, minus = measure(func() { res = total(f) })
				close(done)
			}()
			select {
			case <-done:
			case <-time.After(time.Duration(*budget*12) * time.Millisecond):
				// the call did not come back: recorded as a hang (the goroutine is abandoned, the process ends soon)
				pts = append(pts, pt{N: n, Us: *budget * 12 * 1000, Mallocs: 0, Len: length, Res: "hang"})
				return w.write(map[string]any{"family": inp.Family, "entry": inp.Entry, "kind": inp.Kind, "unit": inp.Unit, "points": pts})
			}
			pts = append(pts, pt{N: n, Us: us, MinUs: minus, Mallocs: mallocs, Len: length, Res: res})
			if us > *budget*1000 {
				break
			}
		}
		return w.write(map[string]any{"family": inp.Family, "entry": inp.Entry, "kind": inp.Kind, "unit": inp.Unit, "points": pts})
	})
}
