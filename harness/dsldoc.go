package main

// doc-record: the whole-document trace of the DSL listener (verif hook VerifDocTrace: one event per callback, deferred, with
// what the callback read from its parse-tree context and the projection of the listener state after it), together with the
// model the listener accumulated (also when errors were reported), the names recorded as extensions and the error list.
// Validated by TLC against spec/DslDoc.tla.

import (
	"encoding/json"
	"flag"
	"fmt"
	"sort"
	"sync/atomic"
	"time"

	openfgav1 "github.com/openfga/api/proto/openfga/v1"
	"github.com/openfga/language/pkg/go/transformer"
)

type docEvent struct {
	Ev   string   `json:"ev"`
	Args []string `json:"args"`
	I    []int    `json:"i"`
	S    []string `json:"s"`
}

// docTree renders a rewrite with a fixed set of fields per kind (the specification compares records): this {k}, cu {k, rel},
// ttu {k, rel, ts}, operators {k, ch}, absent {k: "nil"}
func docTree(t *AbsTree) map[string]any {
	switch {
	case t == nil || t.K == "none" || t.K == "nil":
		return map[string]any{"k": "nil"}
	case t.K == "this":
		return map[string]any{"k": "this"}
	case t.K == "cu":
		return map[string]any{"k": "cu", "rel": t.Rel}
	case t.K == "ttu":
		return map[string]any{"k": "ttu", "rel": t.Rel, "ts": t.Ts}
	}
	ch := []any{}
	for _, c := range t.Ch {
		ch = append(ch, docTree(c))
	}
	return map[string]any{"k": t.K, "ch": ch}
}

type docRel struct {
	Name   string         `json:"name"`
	Rw     map[string]any `json:"rw"`
	Restr  []AbsRestr     `json:"restr"`
	Module string         `json:"module"`
}

type docType struct {
	Name   string   `json:"name"`
	Meta   string   `json:"meta"` // nil | norels | full
	Module string   `json:"module"`
	Rels   []docRel `json:"rels"`
}

type docCond struct {
	Name    string     `json:"name"`
	Expr    string     `json:"expr"`
	HasMeta bool       `json:"hasmeta"`
	Module  string     `json:"module"`
	Params  []AbsParam `json:"params"`
}

type docModel struct {
	Schema string    `json:"schema"`
	Types  []docType `json:"types"`
	Conds  []docCond `json:"conds"`
}

type docTrace struct {
	ID     string     `json:"id"`
	Events []docEvent `json:"events"`
	Model  *docModel  `json:"model"`
	Exts   []string   `json:"exts"`
	Errs   []parseErr `json:"errs"`
	Panic  string     `json:"panic"`
}

func init() {
	commands["doc-record"] = docRecord
}

func b2i(b bool) int {
	if b {
		return 1
	}
	return 0
}

func docModelOf(m *openfgav1.AuthorizationModel) *docModel {
	out := &docModel{Schema: m.GetSchemaVersion(), Types: []docType{}, Conds: []docCond{}}
	for _, td := range m.GetTypeDefinitions() {
		t := docType{Name: td.GetType(), Rels: []docRel{}, Module: td.GetMetadata().GetModule()}
		switch {
		case td.GetMetadata() == nil:
			t.Meta = "nil"
		case td.GetMetadata().GetRelations() == nil:
			t.Meta = "norels"
		default:
			t.Meta = "full"
		}
		names := make([]string, 0, len(td.GetRelations()))
		for n := range td.GetRelations() {
			names = append(names, n)
		}
		sort.Strings(names)
		for _, n := range names {
			rm := td.GetMetadata().GetRelations()[n]
			restr := absRestr(rm.GetDirectlyRelatedUserTypes())
			if restr == nil {
				restr = []AbsRestr{}
			}
			t.Rels = append(t.Rels, docRel{Name: n, Rw: docTree(absRw(td.GetRelations()[n])), Restr: restr, Module: rm.GetModule()})
		}
		out.Types = append(out.Types, t)
	}
	cn := make([]string, 0, len(m.GetConditions()))
	for n := range m.GetConditions() {
		cn = append(cn, n)
	}
	sort.Strings(cn)
	for _, n := range cn {
		c := m.GetConditions()[n]
		dc := docCond{Name: c.GetName(), Expr: c.GetExpression(), HasMeta: c.GetMetadata() != nil, Module: c.GetMetadata().GetModule(), Params: []AbsParam{}}
		pn := make([]string, 0, len(c.GetParameters()))
		for p := range c.GetParameters() {
			pn = append(pn, p)
		}
		sort.Strings(pn)
		for _, p := range pn {
			ref := c.GetParameters()[p]
			ap := AbsParam{Name: p, Ty: ref.GetTypeName().String()}
			if len(ref.GetGenericTypes()) > 0 {
				ap.Elem = ref.GetGenericTypes()[0].GetTypeName().String()
			}
			dc.Params = append(dc.Params, ap)
		}
		out.Conds = append(out.Conds, dc)
	}
	return out
}

func recordDoc(id, text string) docTrace {
	if atomic.LoadInt32(&parseHangs) >= 3 {
		return docTrace{ID: id, Events: []docEvent{}, Exts: []string{}, Errs: []parseErr{}, Panic: "hang: not run"}
	}
	done := make(chan docTrace, 1)
	go func() { done <- recordDocNow(id, text) }()
	select {
	case t := <-done:
		return t
	case <-time.After(30 * time.Second):
		atomic.AddInt32(&parseHangs, 1)
		return docTrace{ID: id, Events: []docEvent{}, Exts: []string{}, Errs: []parseErr{}, Panic: "hang: the parser did not return within 30 s"}
	}
}

func recordDocNow(id, text string) (tr docTrace) {
	tr = docTrace{ID: id, Events: []docEvent{}, Exts: []string{}, Errs: []parseErr{}}
	transformer.VerifDocTrace = func(ev string, a []string, st transformer.VerifDocState) {
		if a == nil {
			a = []string{}
		}
		tr.Events = append(tr.Events, docEvent{Ev: ev, Args: append([]string{}, a...),
			I: []int{st.Types, b2i(st.HasCurType), st.CurRelations, st.Conditions, b2i(st.HasCurCondition), st.CurParameters, st.Extensions,
				b2i(st.HasCurRelation), st.Rewrites, st.StackDepth, st.Restrictions, b2i(st.Modular)},
			S: []string{st.CurType, st.CurCondition, st.Module, st.Operator, st.Schema}})
	}
	defer func() {
		transformer.VerifDocTrace = nil
		if p := recover(); p != nil {
			tr.Panic = fmt.Sprint(p)
		}
	}()
	listener, errs := transformer.ParseDSL(text)
	if errs.Errors != nil {
		tr.Errs = splitErrs(errs.Errors)
	}
	m, exts := listener.VerifModel()
	tr.Model, tr.Exts = docModelOf(m), exts
	return tr
}

func docRecord(args []string) error {
	fs := flag.NewFlagSet("doc-record", flag.ExitOnError)
	in := fs.String("in", "", "input ndjson {id, text}")
	out := fs.String("out", "", "output ndjson: one whole-document listener trace per input")
	fs.Parse(args)
	w, err := newNDWriter(*out)
	if err != nil {
		return err
	}
	defer w.close()
	return readNDJSON(*in, func(line []byte) error {
		var inp dslParseIn
		if err := json.Unmarshal(line, &inp); err != nil {
			return err
		}
		return w.write(recordDoc(inp.ID, inp.Text))
	})
}
