package main

import (
	"crypto/sha256"
	"encoding/hex"
	"encoding/json"
	"errors"
	"flag"
	"fmt"
	"os"
	"sort"
	"strings"
	"sync"

	openfgav1 "github.com/openfga/api/proto/openfga/v1"
	"github.com/openfga/language/pkg/go/graph"
	"github.com/openfga/language/pkg/go/transformer"
	"github.com/openfga/language/pkg/go/validation"
	"google.golang.org/protobuf/encoding/protojson"
	"google.golang.org/protobuf/proto"
)

func init() {
	commands["purity-pairs"] = purityPairs
	commands["purity-run"] = purityRun
}

// ---- the object pool (inputs, not oracles) ----

const dslSmall = "model\n  schema 1.1\n\ntype user\n\ntype doc\n  relations\n    define owner: [user]\n    define viewer: [user, user:*] or owner\n"

const dslBig = `model
  schema 1.1

type user

type group
  relations
    define member: [user, group#member]

type folder
  relations
    define parent: [folder]
    define owner: [user, group#member with in_hours]
    define viewer: [user, user:*, group#member] or owner or viewer from parent

type doc
  relations
    define parent: [folder, folder with in_hours]
    define owner: [user]
    define editor: [user, group#member] or owner
    define blocked: [user]
    define viewer: ([user, user:* with in_hours] or editor or viewer from parent) but not blocked
    define can_share: owner and (editor or viewer from parent)

condition in_hours(now: timestamp, hours: list<int>, flags: map<bool>) {
  now > timestamp("2024-01-01T00:00:00Z") && hours[0] < 24
}
`

const dslInvalid = "model\n  schema 1.1\ntype user\ntype doc\n  relations\n    define a: [user] or b and c\n    define a: [user\n"

const dslModule = "module core\n\ntype user\n\nextend type doc\n  relations\n    define auditor: [user]\n\ncondition c1(x: int) {\n  x < 3\n}\n"

const yamlOK = "schema: '1.2'\ncontents:\n  - core.fga\n  - \"dir%2Fb.fga\"\n  - ../bad.fga\n"

var poolMods = []transformer.ModuleFile{
	{Name: "z.fga", Contents: "module zeta\n\ntype zebra\n  relations\n    define r: [user]\n"},
	{Name: "a.fga", Contents: "module alpha\n\ntype user\n\ntype apple\n  relations\n    define r: [user]\n\nextend type zebra\n  relations\n    define s: [user] or r\n"},
}

func poolConflict() []transformer.ModuleFile {
	return []transformer.ModuleFile{poolMods[0], poolMods[0], {Name: "c.fga", Contents: "module c\nextend type nope\n  relations\n    define r: [user]\n"}}
}

type purityPool struct {
	texts  map[string]string
	models map[string]*openfgav1.AuthorizationModel
	files  map[string][]transformer.ModuleFile
}

func newPool() *purityPool {
	p := &purityPool{texts: map[string]string{}, models: map[string]*openfgav1.AuthorizationModel{}, files: map[string][]transformer.ModuleFile{}}
	p.texts["t_small"] = dslSmall
	p.texts["t_big"] = dslBig
	p.texts["t_invalid"] = dslInvalid
	p.texts["t_module"] = dslModule
	p.texts["y_ok"] = yamlOK
	// manifests of several YAML documents (what follows the manifest is read for syntax errors only)
	p.texts["y_multi"] = "schema: '1.2'\ncontents:\n  - core.fga\n---\nnotes:\n  - one\n  - two\n---\nmore: {a: [b, c]}\n"
	p.texts["y_multibad"] = "schema: '1.2'\ncontents:\n  - core.fga\n  - ../x.fga\n---\nnotes: fine\n---\nnotes: [unterminated\n"
	p.texts["s_user"] = "group:eng#member"
	// strings on which the rules of different fields disagree (a condition name may contain ':', '#', '@'; a relation may not; ...)
	p.texts["s_colon"] = "team:owner"
	p.texts["s_at"] = "member@corp"
	p.texts["s_wild"] = "user:*"
	big, err := transformer.TransformDSLToProto(dslBig)
	if err != nil {
		panic(err)
	}
	js, _ := protojson.Marshal(big)
	p.texts["j_model"] = string(js)
	// a model only JSON can express: the direct assignment is not the first operand (the printer hoists it)
	p.texts["j_hoist"] = `{"schema_version":"1.1","type_definitions":[{"type":"user"},{"type":"doc","relations":{"a":{"this":{}},"v":{"union":{"child":[{"computedUserset":{"relation":"a"}},{"this":{}}]}}},"metadata":{"relations":{"a":{"directly_related_user_types":[{"type":"user"}]},"v":{"directly_related_user_types":[{"type":"user"}]}}}}]}`
	p.models["m_big"] = big
	hoist, err := transformer.LoadJSONStringToProto(p.texts["j_hoist"])
	if err != nil {
		panic(err)
	}
	p.models["m_hoist"] = hoist
	// a modular model whose type definitions are NOT in the order the printer emits them
	mods := poolMods
	merged, err := transformer.TransformModuleFilesToModel(mods, "1.2")
	if err != nil {
		panic(err)
	}
	p.models["m_modular"] = merged
	// a second modular model (other modules, other files): what two concurrent FIRST uses of an operation have in common is the
	// code path, not the object
	merged2, err := transformer.TransformModuleFilesToModel([]transformer.ModuleFile{
		{Name: "core/base.fga", Contents: "module base\n\ntype user\n\ntype team\n  relations\n    define member: [user]\n\ncondition in_team(x: int) {\n  x > 0\n}\n"},
		{Name: "ext/wiki.fga", Contents: "module wiki\n\ntype page\n  relations\n    define editor: [user, team#member]\n\nextend type team\n  relations\n    define lead: [user with in_team]\n"},
	}, "1.2")
	if err != nil {
		panic(err)
	}
	p.models["m_modular2"] = merged2
	other, err := transformer.TransformDSLToProto("model\n  schema 1.1\n\ntype user\n\ntype org\n  relations\n    define admin: [user]\n\ntype repo\n  relations\n    define owner: [org]\n    define admin: [user] or admin from owner\n    define viewer: [user, user:*] or admin\n")
	if err != nil {
		panic(err)
	}
	p.models["m_other"] = other
	// two models of different content that carry the same id (the same id in two stores, a fixture id): what is built or
	// printed for one of them must not be handed out for the other
	ida := proto.Clone(big).(*openfgav1.AuthorizationModel)
	ida.Id = "01J0PURITY0000000000000001"
	idb := proto.Clone(other).(*openfgav1.AuthorizationModel)
	idb.Id = "01J0PURITY0000000000000001"
	p.models["m_id_a"] = ida
	p.models["m_id_b"] = idb
	// models on which the printer (and the builders) take their error paths: "inputs untouched" holds there as well
	noname := proto.Clone(big).(*openfgav1.AuthorizationModel)
	for _, c := range noname.GetConditions() {
		c.Name = "" // keyed in the map, the nested name left out (hand-written JSON)
	}
	p.models["m_cond_noname"] = noname
	mismatch := proto.Clone(big).(*openfgav1.AuthorizationModel)
	for k, c := range mismatch.GetConditions() {
		c.Name = k + "_x"
	}
	p.models["m_cond_mismatch"] = mismatch
	twice, err := transformer.LoadJSONStringToProto(`{"schema_version":"1.1","type_definitions":[{"type":"user"},{"type":"doc","relations":{"a":{"this":{}},"v":{"union":{"child":[{"this":{}},{"intersection":{"child":[{"computedUserset":{"relation":"a"}},{"this":{}}]}}]}}},"metadata":{"relations":{"a":{"directly_related_user_types":[{"type":"user"}]},"v":{"directly_related_user_types":[{"type":"user"},{"type":"user"},{"type":"doc","relation":"a"}]}}}}]}`)
	if err != nil {
		panic(err)
	}
	p.models["m_this_twice"] = twice
	// ... and models the graph builders refuse: a tupleset nobody defines, a tuple-free rewrite cycle
	badttu, err := transformer.LoadJSONStringToProto(`{"schema_version":"1.1","type_definitions":[{"type":"user"},{"type":"doc","relations":{"a":{"this":{}},"v":{"union":{"child":[{"this":{}},{"tupleToUserset":{"tupleset":{"relation":"nope"},"computedUserset":{"relation":"a"}}}]}}},"metadata":{"relations":{"a":{"directly_related_user_types":[{"type":"user"}]},"v":{"directly_related_user_types":[{"type":"user"}]}}}}]}`)
	if err != nil {
		panic(err)
	}
	p.models["m_bad_ttu"] = badttu
	cyc, err := transformer.TransformDSLToProto("model\n  schema 1.1\n\ntype user\n\ntype doc\n  relations\n    define a: b\n    define b: c or a\n    define c: [user]\n")
	if err != nil {
		panic(err)
	}
	p.models["m_rw_cycle"] = cyc
	// files without a module header: every "file is not a module" error names ITS file, also after later calls
	p.files["f_notmodule_a"] = []transformer.ModuleFile{mods[0], {Name: "legacy-a.fga", Contents: "model\n  schema 1.1\n\ntype plain\n"}}
	p.files["f_notmodule_b"] = []transformer.ModuleFile{{Name: "old/b.fga", Contents: "model\n  schema 1.1\n\ntype bare\n\ncondition k(x: int) {\n  x < 1\n}\n"}, mods[1], {Name: "c.fga", Contents: "model\n  schema 1.1\ntype other\n"}}
	p.files["f_ok"] = mods
	p.files["f_conflict"] = poolConflict()
	return p
}

var purityOps = map[string]string{ // operation -> kind of object it takes
	"dsl2proto": "dsl", "dsl2json": "dsl", "modular": "dsl", "json2dsl": "json", "proto2dsl": "model", "proto2dsl_src": "model",
	"wg": "model", "wg_shared": "model", "pg": "model", "merge": "files", "modfile": "yaml", "validators": "str",
	// the caller re-uses ONE message value for model after model (proto.Reset ; proto.Merge): identity of the message is not identity of
	// the model. Sequential histories only (the recycled message is the harness' own shared object).
	"wg_recycled": "model2", "pg_recycled": "model2", "proto2dsl_recycled": "model2",
	// every validator on its own: what one of them caches must not change what another answers
	"v_user": "str", "v_object": "str", "v_userset": "str", "v_type": "str", "v_relation": "str", "v_condition": "str", "v_objectid": "str",
	"v_userobject": "str", "v_wildcard": "str",
}

var recycledModel = &openfgav1.AuthorizationModel{}

var singleValidators = map[string]func(string) bool{
	"v_user": validation.ValidateUser, "v_object": validation.ValidateObject, "v_userset": validation.ValidateUserSet, "v_type": validation.ValidateType,
	"v_relation": validation.ValidateRelation, "v_condition": validation.ValidateRelationshipCondition, "v_objectid": validation.ValidateObjectID,
	"v_userobject": validation.ValidateUserObject, "v_wildcard": validation.ValidateUserWildcard,
}

func objKind(name string) string {
	switch {
	case strings.HasPrefix(name, "t_"):
		return "dsl"
	case strings.HasPrefix(name, "j_"):
		return "json"
	case strings.HasPrefix(name, "m_"):
		return "model"
	case strings.HasPrefix(name, "f_"):
		return "files"
	case strings.HasPrefix(name, "y_"):
		return "yaml"
	}
	return "str"
}

func purityPairs(args []string) error {
	p := newPool()
	var objs []string
	for k := range p.texts {
		objs = append(objs, k)
	}
	for k := range p.models {
		objs = append(objs, k)
	}
	for k := range p.files {
		objs = append(objs, k)
	}
	sort.Strings(objs)
	var ops []string
	for k := range purityOps {
		ops = append(ops, k)
	}
	sort.Strings(ops)
	pairs := [][]string{}
	for _, op := range ops {
		for _, o := range objs {
			if purityOps[op] == objKind(o) || (purityOps[op] == "model2" && (o == "m_big" || o == "m_other")) {
				pairs = append(pairs, []string{op, o})
			}
		}
	}
	b, _ := json.Marshal(pairs)
	fmt.Println(string(b))
	return nil
}

func digest(parts ...any) string {
	h := sha256.New()
	for _, p := range parts {
		fmt.Fprintf(h, "%v\x00", p)
	}
	return hex.EncodeToString(h.Sum(nil))[:16]
}

func errText(err error) string {
	if err == nil {
		return ""
	}
	return err.Error()
}

// lastKept is set by the operations that hand an error VALUE to their caller: reading that value again later must give the same text
// (a result that a later call can still write to is not a result). Only used by the sequential history mode.
var lastKept func() string

// keepEnabled is switched on by the sequential history mode only (the concurrent modes must not write the shared slot)
var keepEnabled bool

func keep(f func() string) {
	if keepEnabled {
		lastKept = f
	}
}

// mergeErrFields spells out the fields of the errors TransformModuleFilesToModel returned (Error() leaves the file out)
func mergeErrFields(err error) string {
	var me *transformer.ModuleValidationMultipleError
	if !errors.As(err, &me) {
		return ""
	}
	out := []string{}
	for _, e := range me.Errors {
		var se *transformer.ModuleTransformationSingleError
		if errors.As(e, &se) {
			out = append(out, fmt.Sprintf("%s:%d:%d:%s", se.File, se.Line.Start, se.Column.Start, se.Msg))
		} else {
			out = append(out, "other:"+e.Error())
		}
	}
	return strings.Join(out, ";")
}

// execOp runs one operation on an object and returns a digest of everything observable about the result.
func execOp(op string, text string, model *openfgav1.AuthorizationModel, files []transformer.ModuleFile) (res string) {
	defer func() {
		if r := recover(); r != nil {
			res = "panic:" + fmt.Sprint(r)
		}
	}()
	switch op {
	case "dsl2proto":
		m, err := transformer.TransformDSLToProto(text)
		keep(func() string { return errText(err) })
		if err != nil {
			return digest("err", errText(err))
		}
		b, _ := json.Marshal(absModel(m, false))
		return digest("ok", string(b))
	case "dsl2json":
		s, err := transformer.TransformDSLToJSON(text)
		keep(func() string { return errText(err) })
		if err == nil {
			// protojson output is deliberately unstable in whitespace: compare the parsed document
			var v any
			json.Unmarshal([]byte(s), &v)
			b, _ := json.Marshal(v)
			s = string(b)
		}
		return digest(s, errText(err))
	case "modular":
		m, ext, err := transformer.TransformModularDSLToProto(text)
		keep(func() string { return errText(err) })
		if err != nil {
			return digest("err", errText(err))
		}
		names := []string{}
		for k := range ext {
			names = append(names, k)
		}
		sort.Strings(names)
		b, _ := json.Marshal(absModel(m, false))
		return digest("ok", string(b), names)
	case "json2dsl":
		s, err := transformer.TransformJSONStringToDSL(text)
		if err != nil {
			return digest("err", errText(err))
		}
		return digest("ok", *s)
	case "proto2dsl":
		s, err := transformer.TransformJSONProtoToDSL(model)
		return digest(s, errText(err))
	case "proto2dsl_src":
		s, err := transformer.TransformJSONProtoToDSL(model, transformer.WithIncludeSourceInformation(true))
		return digest(s, errText(err))
	case "wg":
		g, err := graph.NewWeightedAuthorizationModelGraphBuilder().Build(model)
		cn := map[string]string{}
		if g != nil {
			cn = canonWG(g)
		}
		o := outcomeOf(g, err, cn, nil)
		accepted := o.Result == "ok"
		return digest(accepted, o.NW, o.EW, o.NWC, o.EWC)
	case "wg_recycled", "pg_recycled", "proto2dsl_recycled":
		proto.Reset(recycledModel)
		proto.Merge(recycledModel, model)
		return execOp(strings.TrimSuffix(op, "_recycled"), text, recycledModel, files)
	case "wg_shared":
		// one builder value for the whole process: a builder is not supposed to remember anything between Build calls
		g, err := sharedBuilder.Build(model)
		cn := map[string]string{}
		if g != nil {
			cn = canonWG(g)
		}
		o := outcomeOf(g, err, cn, nil)
		return digest(o.Result == "ok", o.NW, o.EW, o.NWC, o.EWC)
	case "pg":
		g, err := graph.NewAuthorizationModelGraph(model)
		if err != nil {
			return digest("err", errText(err))
		}
		r, rerr := g.Reversed()
		rdot := ""
		if rerr == nil {
			rdot = r.GetDOT()
		}
		c1, c2 := g.GetCycles().VerifFlags()
		return digest(g.GetDOT(), rdot, c1, c2)
	case "merge":
		m, err := transformer.TransformModuleFilesToModel(files, "1.2")
		if err != nil {
			// everything a caller can read from the returned error: the text and, per conflict, file / line / column / message
			full := func() string { return errText(err) + "|" + mergeErrFields(err) }
			keep(full)
			return digest("err", full())
		}
		b, _ := json.Marshal(absModel(m, false))
		return digest("ok", string(b))
	case "modfile":
		mf, err := transformer.TransformModFile(text)
		b, _ := json.Marshal(mf)
		return digest(string(b), errText(err))
	case "v_user", "v_object", "v_userset", "v_type", "v_relation", "v_condition", "v_objectid", "v_userobject", "v_wildcard":
		return digest(singleValidators[op](text))
	case "validators":
		return digest(validation.ValidateUser(text), validation.ValidateObject(text), validation.ValidateUserSet(text), validation.ValidateType(text), validation.ValidateRelation(text))
	}
	return "unknown-op"
}

type puritySnap struct {
	model *openfgav1.AuthorizationModel
	tds   []*openfgav1.TypeDefinition
	files []transformer.ModuleFile
}

func snapModel(m *openfgav1.AuthorizationModel) puritySnap {
	return puritySnap{model: proto.Clone(m).(*openfgav1.AuthorizationModel), tds: append([]*openfgav1.TypeDefinition{}, m.GetTypeDefinitions()...)}
}

func modelChanged(s puritySnap, m *openfgav1.AuthorizationModel) bool {
	if !proto.Equal(s.model, m) || len(s.tds) != len(m.GetTypeDefinitions()) {
		return true
	}
	for i, td := range m.GetTypeDefinitions() {
		if s.tds[i] != td {
			return true
		}
	}
	return false
}

func filesChanged(a, b []transformer.ModuleFile) bool {
	if len(a) != len(b) {
		return true
	}
	for i := range a {
		if a[i] != b[i] {
			return true
		}
	}
	return false
}

type purityEvent struct {
	Ev  string `json:"ev"`
	P   int    `json:"p"`
	Op  string `json:"op,omitempty"`
	Obj string `json:"obj,omitempty"`
	Res string `json:"res,omitempty"`
}

type purityTrace struct {
	ID     string        `json:"id"`
	Kind   string        `json:"kind"` // history | scenario
	Shared bool          `json:"shared"`
	Calls  [][]string    `json:"calls"`
	Events []purityEvent `json:"events"`
}

// coldConcurrent: the FIRST use of an operation in this process is concurrent - several goroutines call it from a barrier, on
// distinct objects, before any library function has completed (the objects are decoded with protojson / taken from constants, never
// through the library). Lazily initialised package state that is not published safely shows up here and only here.
func coldConcurrent(op, modelsFile string) error {
	texts := map[string]string{"t_small": dslSmall, "t_big": dslBig, "t_invalid": dslInvalid, "t_module": dslModule, "y_ok": yamlOK,
		"s_user": "group:eng#member", "s_colon": "team:owner", "s_at": "member@corp", "s_wild": "user:*"}
	var dump struct {
		Models map[string]json.RawMessage `json:"models"`
		Texts  map[string]string          `json:"texts"`
	}
	b, err := os.ReadFile(modelsFile)
	if err != nil {
		return err
	}
	if err := json.Unmarshal(b, &dump); err != nil {
		return err
	}
	for k, v := range dump.Texts {
		texts[k] = v
	}
	models := map[string]*openfgav1.AuthorizationModel{}
	for k, raw := range dump.Models {
		m := &openfgav1.AuthorizationModel{}
		if err := protojson.Unmarshal(raw, m); err != nil {
			return err
		}
		models[k] = m
	}
	files := map[string][]transformer.ModuleFile{"f_ok": poolMods, "f_conflict": poolConflict()}
	var objs []string
	kind := purityOps[op]
	for k := range texts {
		if objKind(k) == kind {
			objs = append(objs, k)
		}
	}
	for k := range models {
		if kind == "model" {
			objs = append(objs, k)
		}
	}
	for k := range files {
		if kind == "files" {
			objs = append(objs, k)
		}
	}
	sort.Strings(objs)
	if len(objs) == 0 {
		return fmt.Errorf("no object for operation %s", op)
	}
	g := 8 // goroutines: every object of the kind takes part, at least eight calls
	if len(objs) > g {
		g = len(objs)
	}
	results := make([]string, g)
	names := make([]string, g)
	start := make(chan struct{})
	var wg sync.WaitGroup
	for i := 0; i < g; i++ {
		obj := objs[i%len(objs)]
		names[i] = obj
		var model *openfgav1.AuthorizationModel
		if m := models[obj]; m != nil {
			model = proto.Clone(m).(*openfgav1.AuthorizationModel)
		}
		wg.Add(1)
		go func(i int, obj string, model *openfgav1.AuthorizationModel) {
			defer wg.Done()
			<-start
			results[i] = execOp(op, texts[obj], model, files[obj])
		}(i, obj, model)
	}
	close(start)
	wg.Wait()
	out, _ := json.Marshal(map[string]any{"op": op, "objs": names, "results": results})
	fmt.Println(string(out))
	return nil
}

func purityRun(args []string) error {
	fs := flag.NewFlagSet("purity-run", flag.ExitOnError)
	mode := fs.String("mode", "seq", "cold | seq | conc | coldconc | dump")
	opName := fs.String("op", "", "coldconc: the operation")
	modelsFile := fs.String("models", "", "coldconc: JSON file written by -mode dump")
	in := fs.String("in", "", "input ndjson (histories / scenarios)")
	out := fs.String("out", "", "output ndjson (traces)")
	pair := fs.String("pair", "", "cold: op|obj")
	reps := fs.Int("reps", 20, "conc: repetitions per scenario")
	base := fs.Int("base", 0, "number the traces from base+1 (the scenarios of a run are spread over several processes)")
	fs.Parse(args)
	if *mode == "coldconc" {
		return coldConcurrent(*opName, *modelsFile)
	}
	pool := newPool()
	if *mode == "dump" {
		ms := map[string]json.RawMessage{}
		for k, m := range pool.models {
			b, _ := protojson.Marshal(m)
			ms[k] = b
		}
		b, _ := json.Marshal(map[string]any{"models": ms, "texts": map[string]string{"j_model": pool.texts["j_model"], "j_hoist": pool.texts["j_hoist"]}})
		fmt.Println(string(b))
		return nil
	}
	if *mode == "cold" {
		po := strings.SplitN(*pair, "|", 2)
		fmt.Println(execOp(po[0], pool.texts[po[1]], pool.models[po[1]], pool.files[po[1]]))
		return nil
	}
	w, err := newNDWriter(*out)
	if err != nil {
		return err
	}
	defer w.close()
	n := *base
	return readNDJSON(*in, func(line []byte) error {
		var rec struct {
			Rec    string     `json:"rec"`
			Calls  [][]string `json:"calls"`
			Shared bool       `json:"shared"`
		}
		if err := json.Unmarshal(line, &rec); err != nil {
			return err
		}
		n++
		tr := purityTrace{ID: fmt.Sprintf("%s%d", rec.Rec[:1], n), Kind: rec.Rec, Shared: rec.Shared, Calls: rec.Calls, Events: []purityEvent{}}
		if rec.Rec == "history" {
			keepEnabled = true
			type kept struct {
				read func() string
				was  string
				op   string
				obj  string
			}
			var keeps []kept
			for i, c := range rec.Calls {
				op, obj := c[0], c[1]
				lastKept = nil
				tr.Events = append(tr.Events, purityEvent{Ev: "begin", P: 1, Op: op, Obj: obj})
				var snap puritySnap
				if m := pool.models[obj]; m != nil {
					snap = snapModel(m)
				}
				if f := pool.files[obj]; f != nil {
					snap.files = append([]transformer.ModuleFile{}, f...)
				}
				res := execOp(op, pool.texts[obj], pool.models[obj], pool.files[obj])
				if m := pool.models[obj]; m != nil && modelChanged(snap, m) {
					tr.Events = append(tr.Events, purityEvent{Ev: "write", P: 1, Obj: obj})
					pool.models[obj] = snap.model // restore for the calls that follow
				}
				if f := pool.files[obj]; f != nil && filesChanged(snap.files, f) {
					tr.Events = append(tr.Events, purityEvent{Ev: "write", P: 1, Obj: obj})
					pool.files[obj] = snap.files
				}
				tr.Events = append(tr.Events, purityEvent{Ev: "end", P: 1, Res: res})
				if lastKept != nil {
					keeps = append(keeps, kept{lastKept, lastKept(), op, obj})
				}
				_ = i
			}
			// the values the earlier calls returned, read once more after everything that followed
			for _, k := range keeps {
				if k.read() != k.was {
					tr.Events = append(tr.Events, purityEvent{Ev: "mutated", P: 1, Op: k.op, Obj: k.obj})
				}
			}
			return w.write(tr)
		}
		// concurrency scenario: the calls start together from a barrier, `reps` times
		fmt.Fprintf(os.Stderr, "SCENARIO %s\n", tr.ID)
		for rep := 0; rep < *reps; rep++ {
			objs := map[string]bool{}
			for _, c := range rec.Calls {
				objs[c[1]] = true
			}
			snaps := map[string]puritySnap{}
			for o := range objs {
				if m := pool.models[o]; m != nil {
					snaps[o] = snapModel(m)
				}
			}
			results := make([]string, len(rec.Calls))
			start := make(chan struct{})
			var wg sync.WaitGroup
			for i, c := range rec.Calls {
				model := pool.models[c[1]]
				if model != nil && !rec.Shared {
					model = proto.Clone(model).(*openfgav1.AuthorizationModel)
				}
				wg.Add(1)
				go func(i int, op, obj string, model *openfgav1.AuthorizationModel) {
					defer wg.Done()
					<-start
					results[i] = execOp(op, pool.texts[obj], model, pool.files[obj])
				}(i, c[0], c[1], model)
			}
			close(start)
			wg.Wait()
			if rep == 0 || true {
				for i, c := range rec.Calls {
					tr.Events = append(tr.Events, purityEvent{Ev: "begin", P: i + 1, Op: c[0], Obj: c[1]})
				}
				for o, s := range snaps {
					if modelChanged(s, pool.models[o]) {
						tr.Events = append(tr.Events, purityEvent{Ev: "write", P: 0, Obj: o})
						pool.models[o] = s.model
					}
				}
				for i := range rec.Calls {
					tr.Events = append(tr.Events, purityEvent{Ev: "end", P: i + 1, Res: results[i]})
				}
			}
		}
		return w.write(tr)
	})
}
