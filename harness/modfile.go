package main

import (
	"encoding/json"
	"errors"
	"flag"
	"fmt"
	"strings"
	"sync/atomic"
	"time"

	"github.com/openfga/language/pkg/go/transformer"
)

func init() {
	commands["modfile-replay"] = modfileReplay
}

type mfItem struct {
	Value []int `json:"value"` // bytes
	Line  int   `json:"line"`
	Col   int   `json:"col"`
}

type mfErr struct {
	Line int    `json:"line"`
	Col  int    `json:"col"`
	Kind string `json:"kind"`
	Msg  string `json:"msg"`
}

type mfObs struct {
	Idx      int      `json:"idx"`
	Result   string   `json:"result"` // ok | errors | yamlerr | panic | othererr
	Schema   *mfItem  `json:"schema,omitempty"`
	Contents *mfItem  `json:"contents,omitempty"`
	Items    []mfItem `json:"items"`
	Errors   []mfErr  `json:"errors"`
	Msg      string   `json:"msg,omitempty"`
}

func bytesOf(s string) []int {
	out := make([]int, 0, len(s))
	for i := 0; i < len(s); i++ {
		out = append(out, int(s[i]))
	}
	return out
}

func mfKind(msg string) string {
	switch {
	case strings.HasPrefix(msg, "failed to decode path"):
		return "decode"
	case strings.HasPrefix(msg, "invalid contents item"):
		return "invalid"
	case strings.HasPrefix(msg, "contents items should use fga file extension"):
		return "suffix"
	case strings.HasPrefix(msg, "unexpected contents item type"):
		return "nonstr"
	case strings.HasPrefix(msg, "missing schema"), strings.HasPrefix(msg, "unexpected schema"), strings.HasPrefix(msg, "unsupported schema"):
		return "schema"
	case strings.HasPrefix(msg, "missing contents"), strings.HasPrefix(msg, "unexpected contents type"):
		return "contents"
	}
	return "other"
}

// runModFile runs TransformModFile with a deadline: a call that does not return within 10 s is reported as result "panic" with a
// message that begins with "hang:" (its goroutine cannot be stopped; after two of them the rest of the run is not executed any more).
var modfileHangs int32

func runModFile(text string) mfObs {
	if atomic.LoadInt32(&modfileHangs) >= 2 {
		return mfObs{Result: "panic", Msg: "hang: not run (two earlier manifests did not return)", Items: []mfItem{}, Errors: []mfErr{}}
	}
	done := make(chan mfObs, 1)
	go func() { done <- runModFileNow(text) }()
	select {
	case o := <-done:
		return o
	case <-time.After(10 * time.Second):
		atomic.AddInt32(&modfileHangs, 1)
		return mfObs{Result: "panic", Msg: "hang: TransformModFile did not return within 10 s", Items: []mfItem{}, Errors: []mfErr{}}
	}
}

func runModFileNow(text string) (obs mfObs) {
	obs.Items = []mfItem{}
	obs.Errors = []mfErr{}
	defer func() {
		if r := recover(); r != nil {
			obs.Result, obs.Msg = "panic", fmt.Sprint(r)
		}
	}()
	mf, err := transformer.TransformModFile(text)
	if err != nil {
		var me *transformer.ModFileValidationMultipleError
		if errors.As(err, &me) {
			obs.Result = "errors"
			for _, e := range me.Errors {
				var ve *transformer.ModFileValidationError
				if errors.As(e, &ve) {
					obs.Errors = append(obs.Errors, mfErr{Line: ve.Line, Col: ve.Column, Kind: mfKind(ve.Msg), Msg: ve.Msg})
				} else {
					obs.Errors = append(obs.Errors, mfErr{Line: -1, Col: -1, Kind: "foreign", Msg: e.Error()})
				}
			}
			if mf != nil {
				obs.Msg = "error AND a manifest returned"
			}
			return obs
		}
		obs.Result, obs.Msg = "yamlerr", err.Error()
		return obs
	}
	obs.Result = "ok"
	obs.Schema = &mfItem{Value: bytesOf(mf.Schema.Value), Line: mf.Schema.Line, Col: mf.Schema.Column}
	obs.Contents = &mfItem{Line: mf.Contents.Line, Col: mf.Contents.Column}
	for _, it := range mf.Contents.Value {
		obs.Items = append(obs.Items, mfItem{Value: bytesOf(it.Value), Line: it.Line, Col: it.Column})
	}
	return obs
}

func modfileReplay(args []string) error {
	fs := flag.NewFlagSet("modfile-replay", flag.ExitOnError)
	in := fs.String("in", "", "input ndjson, records with a text field")
	out := fs.String("out", "", "output ndjson")
	fs.Parse(args)
	w, err := newNDWriter(*out)
	if err != nil {
		return err
	}
	defer w.close()
	idx := 0
	return readNDJSON(*in, func(line []byte) error {
		var rec struct {
			Text string `json:"text"`
		}
		if err := json.Unmarshal(line, &rec); err != nil {
			return err
		}
		o := runModFile(rec.Text)
		o.Idx = idx
		idx++
		return w.write(o)
	})
}
