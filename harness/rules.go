package main

import (
	"encoding/json"
	"flag"
	"fmt"
	"os"
	"path/filepath"
	"regexp"
	"strconv"
	"strings"
	"sync"

	"github.com/openfga/language/pkg/go/validation"
)

func init() {
	commands["rules-replay"] = rulesReplay
	commands["rules-config"] = rulesConfig
}

// representatives of every character class of spec/Rules.tla
var classReps = map[byte][]string{
	':': {":", ":", ":"}, '#': {"#", "#", "#"}, '@': {"@", "@", "@"}, '*': {"*", "*", "*"},
	' ': {" ", " ", " "}, 'T': {"\t", "\t", "\r"}, 'N': {"\n", "\n", "\f"},
	'a': {"a", "Z", "7"}, '_': {"_", "|", "."}, '-': {"-", "/", "$"}, 'U': {"é", "世", "ß"},
}

func instantiate(cls string, variant int) string {
	var sb strings.Builder
	for i := 0; i < len(cls); i++ {
		reps := classReps[cls[i]]
		switch variant {
		case 0, 1, 2:
			sb.WriteString(reps[variant])
		default:
			sb.WriteString(reps[(i+variant)%3])
		}
	}
	return sb.String()
}

type rulesObs struct {
	Idx      int             `json:"idx"`
	Variant  int             `json:"variant"`
	Str      string          `json:"str,omitempty"`
	V        map[string]bool `json:"v"`
	ObjSplit bool            `json:"obj_split"`  // accepted object => exactly one ':' and both parts accepted by the part validators
	UsSplit  bool            `json:"us_split"`   // accepted userset => one ':' one '#', three parts accepted
	Kinds    int             `json:"user_kinds"` // how many of userset / object / wildcard accept
}

func rulesEval(s string) rulesObs {
	o := rulesObs{V: map[string]bool{
		"object": validation.ValidateObject(s), "objectid": validation.ValidateObjectID(s), "relation": validation.ValidateRelation(s),
		"userset": validation.ValidateUserSet(s), "userobject": validation.ValidateUserObject(s), "userwildcard": validation.ValidateUserWildcard(s),
		"user": validation.ValidateUser(s), "condition": validation.ValidateRelationshipCondition(s), "type": validation.ValidateType(s)}}
	o.ObjSplit, o.UsSplit = true, true
	if o.V["object"] || o.V["userobject"] {
		parts := strings.Split(s, ":")
		o.ObjSplit = len(parts) == 2 && validation.ValidateType(parts[0]) && validation.ValidateObjectID(parts[1])
	}
	if o.V["userset"] {
		parts := strings.Split(s, ":")
		o.UsSplit = false
		if len(parts) == 2 {
			rest := strings.Split(parts[1], "#")
			o.UsSplit = len(rest) == 2 && validation.ValidateType(parts[0]) && validation.ValidateObjectID(rest[0]) && validation.ValidateRelation(rest[1])
		}
	}
	for _, k := range []string{"userset", "object", "userwildcard"} {
		if o.V[k] {
			o.Kinds++
		}
	}
	return o
}

type rulesIn struct {
	S   string `json:"s"`
	Rec string `json:"rec"`
	Rle []struct {
		C string `json:"c"`
		N int    `json:"n"`
	} `json:"rle"`
}

func rulesReplay(args []string) error {
	fs := flag.NewFlagSet("rules-replay", flag.ExitOnError)
	in := fs.String("in", "", "input ndjson")
	out := fs.String("out", "", "output ndjson")
	variants := fs.Int("variants", 3, "instantiations per class string")
	fs.Parse(args)
	var inputs []string
	if err := readNDJSON(*in, func(line []byte) error {
		var r rulesIn
		if err := json.Unmarshal(line, &r); err != nil {
			return err
		}
		if r.Rec == "rle" {
			var sb strings.Builder
			for _, run := range r.Rle {
				sb.WriteString(strings.Repeat(run.C, run.N))
			}
			inputs = append(inputs, sb.String())
		} else {
			inputs = append(inputs, r.S)
		}
		return nil
	}); err != nil {
		return err
	}
	res := make([][]rulesObs, len(inputs))
	var wg sync.WaitGroup
	const shards = 16
	for sh := 0; sh < shards; sh++ {
		wg.Add(1)
		go func(sh int) {
			defer wg.Done()
			for i := sh; i < len(inputs); i += shards {
				for v := 0; v < *variants; v++ {
					s := instantiate(inputs[i], v)
					o := rulesEval(s)
					o.Idx, o.Variant = i, v
					if len(s) <= 40 {
						o.Str = s
					}
					res[i] = append(res[i], o)
				}
			}
		}(sh)
	}
	wg.Wait()
	w, err := newNDWriter(*out)
	if err != nil {
		return err
	}
	defer w.close()
	for _, os := range res {
		for _, o := range os {
			if err := w.write(o); err != nil {
				return err
			}
		}
	}
	return nil
}

// rulesConfig logs the rule strings and composition patterns found in the Go, TypeScript and Java sources.
func rulesConfig(args []string) error {
	fs := flag.NewFlagSet("rules-config", flag.ExitOnError)
	repo := fs.String("repo", "/repo", "repository root")
	out := fs.String("out", "", "output ndjson")
	fs.Parse(args)
	w, err := newNDWriter(*out)
	if err != nil {
		return err
	}
	defer w.close()
	type src struct {
		lang, file string
		rule       *regexp.Regexp // name, literal
		pattern    *regexp.Regexp // format, args
		tmpl       bool
	}
	srcs := []src{
		{"go", "pkg/go/validation/validation-rules.go", regexp.MustCompile(`Rule(\w+)\s+Rule\s*=\s*("(?:[^"\\]|\\.)*")`), regexp.MustCompile(`fmt\.Sprintf\(("(?:[^"\\]|\\.)*")((?:,\s*Rule\w+)*)\)`), false},
		{"js", "pkg/js/validator/validate-rules.ts", regexp.MustCompile(`(?m)^\s+(\w+):\s*("(?:[^"\\]|\\.)*"),`), regexp.MustCompile("validateFieldValue\\(\\s*`([^`]*)`()"), true},
		{"java", "pkg/java/src/main/java/dev/openfga/language/validation/Validator.java", regexp.MustCompile(`String (\w+)\s*=\s*("(?:[^"\\]|\\.)*");`), regexp.MustCompile(`String\.format\(("(?:[^"\\]|\\.)*")((?:,\s*Rules\.\w+)*)\)`), false},
	}
	argRe := regexp.MustCompile(`(?:Rules\.|Rule)(\w+)`)
	for _, s := range srcs {
		b, err := os.ReadFile(filepath.Join(*repo, s.file))
		if err != nil {
			return err
		}
		text := string(b)
		for _, m := range s.rule.FindAllStringSubmatch(text, -1) {
			val, err := strconv.Unquote(m[2])
			if err != nil {
				return fmt.Errorf("%s: cannot unquote %s", s.file, m[2])
			}
			if err := w.write(map[string]string{"kind": "rule", "lang": s.lang, "name": strings.ToLower(m[1]), "value": val}); err != nil {
				return err
			}
		}
		for _, m := range s.pattern.FindAllStringSubmatch(text, -1) {
			var val string
			if s.tmpl {
				val = regexp.MustCompile(`\$\{Rules\.(\w+)\}`).ReplaceAllString(m[1], "$1")
				val = strings.ReplaceAll(val, `\\`, `\`)
			} else {
				f, err := strconv.Unquote(m[1])
				if err != nil {
					return fmt.Errorf("%s: cannot unquote %s", s.file, m[1])
				}
				val = f
				for _, a := range argRe.FindAllStringSubmatch(m[2], -1) {
					val = strings.Replace(val, "%s", strings.ToLower(a[1]), 1)
				}
			}
			if err := w.write(map[string]string{"kind": "pattern", "lang": s.lang, "name": "", "value": val}); err != nil {
				return err
			}
		}
	}
	return nil
}
