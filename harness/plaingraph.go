package main

import (
	"encoding/json"
	"flag"
	"fmt"
	"google.golang.org/protobuf/proto"
	"sort"

	openfgav1 "github.com/openfga/api/proto/openfga/v1"
	"github.com/openfga/language/pkg/go/graph"
)

func init() {
	commands["pg-replay"] = pgReplay
}

type pgNode struct {
	Nid   int64  `json:"nid"`
	ID    string `json:"id"`
	Nt    string `json:"nt"`
	Label string `json:"label"`
}

type pgLine struct {
	From  string   `json:"from"`
	To    string   `json:"to"`
	Kind  string   `json:"kind"`
	Ts    string   `json:"ts"`
	Conds []string `json:"conds"`
}

type pgState struct {
	Calls    int        `json:"calls"` // number of reversals applied
	Dir      string     `json:"dir"`
	Nodes    []pgNode   `json:"nodes"`
	Lines    []pgLine   `json:"lines"`
	Paths    [][]string `json:"paths"`    // [a, b] for every pair of public labels with PathExists(a, b)
	PathErrs []string   `json:"patherrs"` // errors of path queries between existing labels
	Found    []string   `json:"found"`    // public labels GetNodeByLabel finds with the right node type
	Absent   []string   `json:"absent"`   // probe labels GetNodeByLabel does not find
	Compile  bool       `json:"compile"`
	Runtime  bool       `json:"runtime"`
	DOT      string     `json:"dot"`
	Err      string     `json:"err,omitempty"`
}

type pgObs struct {
	ID                       string    `json:"id"`
	States                   []pgState `json:"states"`
	DOTStable                bool      `json:"dot_stable"` // identical DOT over repeated builds
	DOTs                     int       `json:"dot_builds"`
	RR                       []bool    `json:"rr_dot_equal"`                // per repetition: g.Reversed().Reversed().GetDOT() == g.GetDOT()
	RDOTs                    int       `json:"reversed_dots"`               // distinct DOT texts of g.Reversed() over repetitions
	RenderThenReverseDiffers bool      `json:"render_then_reverse_differs"` // g.Reversed().GetDOT() depends on whether g.GetDOT() was called before
	ReversedIsOwnText        bool      `json:"reversed_is_own_text"`        // ... and equals g's own text
	Panic                    string    `json:"panic,omitempty"`
	BuildErr                 string    `json:"builderr,omitempty"`
}

func pgCanon(g *graph.AuthorizationModelGraph) (map[int64]string, []pgNode) {
	names := map[int64]string{}
	var nodes []pgNode
	it := g.Nodes()
	for it.Next() {
		n := it.Node().(*graph.AuthorizationModelNode)
		name := n.Label()
		if n.NodeType() == graph.OperatorNode {
			name = fmt.Sprintf("#%d", n.ID())
		}
		names[n.ID()] = name
		nodes = append(nodes, pgNode{Nid: n.ID(), ID: name, Nt: nodeTypeName(n.NodeType()), Label: n.Label()})
	}
	sort.Slice(nodes, func(i, j int) bool { return nodes[i].Nid < nodes[j].Nid })
	return names, nodes
}

func pgObserve(g *graph.AuthorizationModelGraph, calls int, probes []string) pgState {
	st := pgState{Calls: calls, Paths: [][]string{}, PathErrs: []string{}, Found: []string{}, Absent: []string{}, Lines: []pgLine{}}
	if g.GetDrawingDirection() == graph.DrawingDirectionListObjects {
		st.Dir = "list"
	} else {
		st.Dir = "check"
	}
	names, nodes := pgCanon(g)
	st.Nodes = nodes
	for _, a := range nodes {
		for _, b := range nodes {
			lit := g.Lines(a.Nid, b.Nid)
			for lit.Next() {
				l := lit.Line().(*graph.AuthorizationModelEdge)
				st.Lines = append(st.Lines, pgLine{From: names[l.From().ID()], To: names[l.To().ID()], Kind: edgeKindName(l.EdgeType()), Ts: l.TuplesetRelation()})
			}
		}
	}
	sort.Slice(st.Lines, func(i, j int) bool { return fmt.Sprint(st.Lines[i]) < fmt.Sprint(st.Lines[j]) })
	var public []pgNode
	for _, n := range nodes {
		if n.Nt != "op" {
			public = append(public, n)
		}
	}
	for _, a := range public {
		for _, b := range public {
			ok, err := g.PathExists(a.ID, b.ID)
			if err != nil {
				st.PathErrs = append(st.PathErrs, a.ID+"->"+b.ID+": "+err.Error())
			} else if ok {
				st.Paths = append(st.Paths, []string{a.ID, b.ID})
			}
		}
		n, err := g.GetNodeByLabel(a.ID)
		if err == nil && n != nil && nodeTypeName(n.NodeType()) == a.Nt && n.Label() == a.Label {
			st.Found = append(st.Found, a.ID)
		}
	}
	for _, p := range probes {
		if n, err := g.GetNodeByLabel(p); err != nil || n == nil {
			st.Absent = append(st.Absent, p)
		}
	}
	st.Compile, st.Runtime = g.GetCycles().VerifFlags()
	st.DOT = g.GetDOT()
	return st
}

func pgReplay(args []string) error {
	fs := flag.NewFlagSet("pg-replay", flag.ExitOnError)
	in := fs.String("in", "", "input ndjson: {id, m}")
	out := fs.String("out", "", "output ndjson")
	maxCalls := fs.Int("calls", 3, "number of reversals")
	reps := fs.Int("reps", 20, "repeated builds / reversals")
	fs.Parse(args)
	w, err := newNDWriter(*out)
	if err != nil {
		return err
	}
	defer w.close()
	return readNDJSON(*in, func(line []byte) error {
		var inp struct {
			ID string    `json:"id"`
			M  *AbsModel `json:"m"`
		}
		if err := json.Unmarshal(line, &inp); err != nil {
			return err
		}
		obs := pgObs{ID: inp.ID, States: []pgState{}, DOTStable: true, RR: []bool{}}
		func() {
			defer func() {
				if p := recover(); p != nil {
					obs.Panic = fmt.Sprint(p)
				}
			}()
			model := protoModel(inp.M)
			probes := []string{"nosuchtype", "doc#nosuchrel", "union", "intersection", "exclusion", "user:*:*", ""}
			for _, td := range model.GetTypeDefinitions() {
				probes = append(probes, td.GetType()+"#zz_absent", td.GetType()+":*absent")
			}
			build := func() (*graph.AuthorizationModelGraph, error) { return graph.NewAuthorizationModelGraph(model) }
			g, err := build()
			if err != nil {
				obs.BuildErr = err.Error()
				return
			}
			cur := g
			obs.States = append(obs.States, pgObserve(cur, 0, probes))
			for k := 1; k <= *maxCalls; k++ {
				next, err := cur.Reversed()
				if err != nil {
					obs.States = append(obs.States, pgState{Calls: k, Err: err.Error()})
					break
				}
				cur = next
				obs.States = append(obs.States, pgObserve(cur, k, probes))
			}
			first := g.GetDOT()
			rdots := map[string]bool{}
			// the same model assembled from shared building blocks (structurally equal rewrite subtrees are one message value) and as
			// a deep copy: proto.Equal models draw the same graph
			sharedAbs := *inp.M
			sharedAbs.SharedNodes = true
			sharedModel := protoModel(&sharedAbs)
			for i := 0; i < *reps; i++ {
				var m2 *openfgav1.AuthorizationModel = model
				switch i % 3 {
				case 1:
					m2 = sharedModel
				case 2:
					m2 = proto.Clone(model).(*openfgav1.AuthorizationModel)
				}
				gi, err := graph.NewAuthorizationModelGraph(m2)
				if err != nil || gi.GetDOT() != first {
					obs.DOTStable = false
				}
				obs.DOTs++
				r1, err1 := gi.Reversed()
				if err1 != nil {
					obs.RR = append(obs.RR, false)
					continue
				}
				rdots[r1.GetDOT()] = true
				r2, err2 := r1.Reversed()
				obs.RR = append(obs.RR, err2 == nil && r2.GetDOT() == gi.GetDOT())
			}
			obs.RDOTs = len(rdots)
			// rendering a graph is an observation: the text of g.Reversed() is the same whether or not g was rendered before it was
			// reversed (and it is not g's own text: the drawing direction is the other one)
			if ga, err := graph.NewAuthorizationModelGraph(model); err == nil {
				if ra, err := ga.Reversed(); err == nil {
					fresh := ra.GetDOT() // ga never rendered
					if gb, err := graph.NewAuthorizationModelGraph(model); err == nil {
						own := gb.GetDOT()
						if rb, err := gb.Reversed(); err == nil {
							after := rb.GetDOT()
							obs.RenderThenReverseDiffers = after != fresh
							obs.ReversedIsOwnText = after == own && len(model.GetTypeDefinitions()) > 0
						}
					}
				}
			}
		}()
		return w.write(obs)
	})
}
