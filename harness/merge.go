package main

import (
	"encoding/json"
	"errors"
	"flag"
	"fmt"
	"runtime"
	"sort"
	"strings"
	"sync"
	"sync/atomic"

	openfgav1 "github.com/openfga/api/proto/openfga/v1"
	"github.com/openfga/language/pkg/go/transformer"
	"github.com/openfga/language/pkg/go/utils"
)

func init() {
	commands["merge-replay"] = mergeReplay
}

type mgFile struct {
	Name string `json:"name"`
	Text string `json:"text"`
}

type mgInput struct {
	ID     string   `json:"id"`
	Files  []mgFile `json:"files"`
	Schema string   `json:"schema"`
}

type mgErr struct {
	Kind string `json:"kind"`
	Name string `json:"name"`
	File string `json:"file"`
	Line int    `json:"line"`
	Col  int    `json:"col"`
	Msg  string `json:"msg"`
}

type mgOutcome struct {
	Result  string     `json:"result"` // ok | err | panic
	Errs    []mgErr    `json:"errs"`
	Types   [][]string `json:"types"` // [name, module, file] in model order
	Rels    [][]string `json:"rels"`  // [type, relation, module, file, marker, module via GetModuleForObjectTypeRelation] sorted
	Conds   [][]string `json:"conds"` // [name, module, file, expression] sorted
	Schema  string     `json:"schema"`
	Msg     string     `json:"msg,omitempty"`
	Partial bool       `json:"partial"` // an error AND a non-nil model
	Count   int        `json:"count"`
	key     string
}

var mgKinds = []struct{ prefix, kind string }{
	{"duplicate type definition ", "duptype"}, {"duplicate condition ", "dupcond"}, {"extended type ", "noext"},
	{"relation ", "duprel"}, {"file is not a module", "notmodule"},
}

func mgClassify(e error) mgErr {
	var se *transformer.ModuleTransformationSingleError
	if errors.As(e, &se) {
		out := mgErr{File: se.File, Line: se.Line.Start, Col: se.Column.Start, Msg: se.Msg, Kind: "other"}
		for _, k := range mgKinds {
			if strings.HasPrefix(se.Msg, k.prefix) {
				out.Kind = k.kind
				rest := strings.TrimPrefix(se.Msg, k.prefix)
				switch k.kind {
				case "noext":
					out.Name = strings.TrimSuffix(rest, " does not exist")
				case "duprel":
					parts := strings.Split(rest, " already exists on type ")
					if len(parts) == 2 {
						out.Name = parts[1] + "#" + parts[0]
					}
				case "notmodule":
				default:
					out.Name = rest
				}
				break
			}
		}
		return out
	}
	return mgErr{Kind: "syntax", Line: -1, Col: -1, Msg: e.Error()}
}

func markerOf(name string, u *openfgav1.Userset, md *openfgav1.RelationMetadata) string {
	m := []string{}
	for _, r := range md.GetDirectlyRelatedUserTypes() {
		m = append(m, r.GetType())
		// a restriction own_<relation> says whose metadata this is: under another relation it is somebody else's
		if strings.HasPrefix(r.GetType(), "own_") && r.GetType() != "own_"+name {
			return "METADATA-OF-" + strings.TrimPrefix(r.GetType(), "own_") + "|" + absRw(u).K
		}
	}
	// the first restriction names the file the relation was written in (k<file number>); layouts may append others
	if len(m) > 1 {
		m = m[:1]
	}
	return strings.Join(m, ",") + "|" + absRw(u).K
}

func runMerge(files []mgFile, schema string) *mgOutcome {
	o := &mgOutcome{Errs: []mgErr{}, Types: [][]string{}, Rels: [][]string{}, Conds: [][]string{}}
	mods := make([]transformer.ModuleFile, len(files))
	for i, f := range files {
		mods[i] = transformer.ModuleFile{Name: f.Name, Contents: f.Text}
	}
	var model *openfgav1.AuthorizationModel
	var err error
	func() {
		defer func() {
			if r := recover(); r != nil {
				o.Result, o.Msg = "panic", fmt.Sprint(r)
			}
		}()
		model, err = transformer.TransformModuleFilesToModel(mods, schema)
	}()
	switch {
	case o.Result == "panic":
	case err != nil:
		o.Result = "err"
		o.Partial = model != nil
		var me *transformer.ModuleValidationMultipleError
		if errors.As(err, &me) {
			for _, e := range me.Errors {
				o.Errs = append(o.Errs, mgClassify(e))
			}
		} else {
			o.Errs = append(o.Errs, mgErr{Kind: "foreign", Msg: err.Error(), Line: -1, Col: -1})
		}
	default:
		o.Result = "ok"
		if model == nil {
			o.Result, o.Msg = "err", "nil model without error"
			break
		}
		o.Schema = model.GetSchemaVersion()
		for _, td := range model.GetTypeDefinitions() {
			o.Types = append(o.Types, []string{td.GetType(), td.GetMetadata().GetModule(), td.GetMetadata().GetSourceInfo().GetFile()})
			for name, rw := range td.GetRelations() {
				md := td.GetMetadata().GetRelations()[name]
				via, verr := utils.GetModuleForObjectTypeRelation(td, name)
				if verr != nil {
					via = "ERROR:" + verr.Error()
				}
				o.Rels = append(o.Rels, []string{td.GetType(), name, md.GetModule(), md.GetSourceInfo().GetFile(), markerOf(name, rw, md), via})
			}
			for name := range td.GetMetadata().GetRelations() {
				if _, ok := td.GetRelations()[name]; !ok {
					o.Rels = append(o.Rels, []string{td.GetType(), name, "METADATA-WITHOUT-RELATION", "", "", ""})
				}
			}
		}
		for name, c := range model.GetConditions() {
			o.Conds = append(o.Conds, []string{name, c.GetMetadata().GetModule(), c.GetMetadata().GetSourceInfo().GetFile(), c.GetExpression(), c.GetName()})
		}
		sort.Slice(o.Rels, func(i, j int) bool { return fmt.Sprint(o.Rels[i]) < fmt.Sprint(o.Rels[j]) })
		sort.Slice(o.Conds, func(i, j int) bool { return fmt.Sprint(o.Conds[i]) < fmt.Sprint(o.Conds[j]) })
	}
	kb, _ := json.Marshal([]any{o.Result, o.Errs, o.Types, o.Rels, o.Conds, o.Schema, o.Partial})
	o.key = string(kb)
	return o
}

type mgObs struct {
	ID       string       `json:"id"`
	Outcomes []*mgOutcome `json:"outcomes"` // distinct outcomes over the repeated invocations, first seen first
	Runs     int          `json:"runs"`
	Perms    []mgPerm     `json:"perms,omitempty"`
}

type mgPerm struct {
	Order    []int        `json:"order"`
	Outcomes []*mgOutcome `json:"outcomes"`
}

func mergeReplay(args []string) error {
	fs := flag.NewFlagSet("merge-replay", flag.ExitOnError)
	in := fs.String("in", "", "input ndjson")
	out := fs.String("out", "", "output ndjson")
	runs := fs.Int("runs", 20, "invocations per file set")
	moreRuns := fs.Int("moreruns", 200, "invocations for file sets with several extension files / conflicts")
	permRuns := fs.Int("permruns", 3, "invocations per permutation of the file list (0: no permutations)")
	fs.Parse(args)
	w, err := newNDWriter(*out)
	if err != nil {
		return err
	}
	defer w.close()
	// file sets are independent: they are merged on all cores, results are written in input order
	return parallelNDJSON(*in, w, func(line []byte) (any, error) {
		var inp mgInput
		if err := json.Unmarshal(line, &inp); err != nil {
			return nil, err
		}
		obs := &mgObs{ID: inp.ID, Outcomes: []*mgOutcome{}}
		n := *runs
		ext := 0
		for _, f := range inp.Files {
			if strings.Contains(f.Text, "extend type") || strings.Contains(f.Text, "condition ") {
				ext++
			}
		}
		if ext >= 2 {
			n = *moreRuns
		}
		collect := func(files []mgFile, n int) []*mgOutcome {
			seen := map[string]*mgOutcome{}
			var outs []*mgOutcome
			for i := 0; i < n; i++ {
				o := runMerge(files, inp.Schema)
				if d, ok := seen[o.key]; ok {
					d.Count++
					continue
				}
				o.Count = 1
				seen[o.key] = o
				outs = append(outs, o)
			}
			return outs
		}
		obs.Outcomes = collect(inp.Files, n)
		obs.Runs = n
		if *permRuns > 0 && len(inp.Files) > 1 && len(inp.Files) <= 4 {
			idx := make([]string, len(inp.Files))
			for i := range idx {
				idx[i] = fmt.Sprint(i)
			}
			perms, _ := permutations(idx, 24, nil)
			for _, p := range perms {
				files := make([]mgFile, len(p))
				order := make([]int, len(p))
				for k, s := range p {
					fmt.Sscan(s, &order[k])
					files[k] = inp.Files[order[k]]
				}
				obs.Perms = append(obs.Perms, mgPerm{Order: order, Outcomes: collect(files, *permRuns)})
				obs.Runs += *permRuns
			}
		}
		return obs, nil
	})
}

// parallelNDJSON applies fn to every line of the input on all cores and writes the results in input order.
func parallelNDJSON(in string, w *ndWriter, fn func(line []byte) (any, error)) error {
	var lines [][]byte
	if err := readNDJSON(in, func(line []byte) error {
		lines = append(lines, append([]byte{}, line...))
		return nil
	}); err != nil {
		return err
	}
	results := make([]any, len(lines))
	errs := make([]error, len(lines))
	var wg sync.WaitGroup
	next := int64(-1)
	for k := 0; k < runtime.NumCPU(); k++ {
		wg.Add(1)
		go func() {
			defer wg.Done()
			for {
				i := int(atomic.AddInt64(&next, 1))
				if i >= len(lines) {
					return
				}
				results[i], errs[i] = fn(lines[i])
			}
		}()
	}
	wg.Wait()
	for i := range lines {
		if errs[i] != nil {
			return errs[i]
		}
		if err := w.write(results[i]); err != nil {
			return err
		}
	}
	return nil
}
