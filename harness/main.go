// fgaharness: the deliberately dumb binding between the TLA+ specifications under /verif/spec and the real code of
// openfga/language. It turns abstract inputs (as TLC prints them) into API arguments, runs the real entry points -
// forcing or logging schedules through the `verif` hooks - and writes what it observed as NDJSON. It contains no
// oracle: expected values come from TLC, comparison and classification happen in the driver (lib/) or in TLC itself.
package main

import (
	"bufio"
	"encoding/json"
	"fmt"
	"os"
)

type cmdFunc func(args []string) error

var commands = map[string]cmdFunc{}

func main() {
	if len(os.Args) < 2 {
		fmt.Fprintln(os.Stderr, "usage: fgaharness <command> [args]")
		os.Exit(2)
	}
	cmd, ok := commands[os.Args[1]]
	if !ok {
		fmt.Fprintln(os.Stderr, "unknown command", os.Args[1])
		os.Exit(2)
	}
	if err := cmd(os.Args[2:]); err != nil {
		fmt.Fprintln(os.Stderr, "harness error:", err)
		os.Exit(2)
	}
}

// readNDJSON calls f for every line of the file.
func readNDJSON(path string, f func(line []byte) error) error {
	fh, err := os.Open(path)
	if err != nil {
		return err
	}
	defer fh.Close()
	sc := bufio.NewScanner(fh)
	sc.Buffer(make([]byte, 1<<20), 1<<28)
	for sc.Scan() {
		b := sc.Bytes()
		if len(b) == 0 {
			continue
		}
		if err := f(b); err != nil {
			return err
		}
	}
	return sc.Err()
}

type ndWriter struct {
	fh *os.File
	w  *bufio.Writer
}

func newNDWriter(path string) (*ndWriter, error) {
	fh, err := os.Create(path)
	if err != nil {
		return nil, err
	}
	return &ndWriter{fh: fh, w: bufio.NewWriterSize(fh, 1<<20)}, nil
}

func (n *ndWriter) write(v any) error {
	b, err := json.Marshal(v)
	if err != nil {
		return err
	}
	n.w.Write(b)
	return n.w.WriteByte('\n')
}

func (n *ndWriter) close() error {
	if err := n.w.Flush(); err != nil {
		return err
	}
	return n.fh.Close()
}
