package main

// merge-steps: the decisions of TransformModuleFilesToModel in the order it takes them (verif hook VerifMergeTrace), with the
// outcome of that very run. Validated by TLC against the Impl layer of spec/Merge.tla (spec/MergeSteps.tla).

import (
	"encoding/json"
	"flag"

	"github.com/openfga/language/pkg/go/transformer"
)

type msEvent struct {
	Ev   string   `json:"ev"`
	Args []string `json:"args"`
}

type msInput struct {
	ID     string            `json:"id"`
	Files  []mgFile          `json:"files"`
	Abs    []json.RawMessage `json:"abs"`
	Schema string            `json:"schema"`
}

type msTrace struct {
	ID     string            `json:"id"`
	Files  []json.RawMessage `json:"files"`
	Events []msEvent         `json:"events"`
	Result string            `json:"result"`
	Errs   [][]string        `json:"errs"`
}

func init() {
	commands["merge-steps"] = mergeSteps
}

func mergeSteps(args []string) error {
	fs := flag.NewFlagSet("merge-steps", flag.ExitOnError)
	in := fs.String("in", "", "input ndjson {id, files:[{name,text}], abs:[abstract files], schema}")
	out := fs.String("out", "", "output ndjson: one step trace per file set")
	fs.Parse(args)
	w, err := newNDWriter(*out)
	if err != nil {
		return err
	}
	defer w.close()
	return readNDJSON(*in, func(line []byte) error {
		var inp msInput
		if err := json.Unmarshal(line, &inp); err != nil {
			return err
		}
		tr := msTrace{ID: inp.ID, Files: inp.Abs, Events: []msEvent{}, Errs: [][]string{}}
		transformer.VerifMergeTrace = func(ev string, a []string) {
			tr.Events = append(tr.Events, msEvent{Ev: ev, Args: a})
		}
		o := runMerge(inp.Files, inp.Schema)
		transformer.VerifMergeTrace = nil
		tr.Result = o.Result
		prevSyntax := false
		for _, e := range o.Errs {
			// the syntax errors of one file are one entry (they carry no file, the merger appends them together)
			if e.Kind == "syntax" {
				if !prevSyntax {
					tr.Errs = append(tr.Errs, []string{"syntax", "", ""})
				}
				prevSyntax = true
				continue
			}
			prevSyntax = false
			tr.Errs = append(tr.Errs, []string{e.Kind, e.Name, e.File})
		}
		return w.write(tr)
	})
}
