package main

import (
	"bytes"
	"encoding/json"
	"errors"
	"flag"
	"fmt"
	"hash/crc32"
	"math/rand"
	"regexp"
	"sort"
	"strconv"
	"strings"
	"sync/atomic"
	"time"

	"github.com/hashicorp/go-multierror"
	openfgav1 "github.com/openfga/api/proto/openfga/v1"
	genparser "github.com/openfga/language/pkg/go/gen"
	"github.com/openfga/language/pkg/go/transformer"
	"google.golang.org/protobuf/encoding/protojson"
	"google.golang.org/protobuf/proto"
)

func init() {
	commands["dsl-print"] = dslPrint
	commands["dsl-parse"] = dslParse
}

type printResult struct {
	OK    bool   `json:"ok"`
	Text  string `json:"text"`
	Err   string `json:"err,omitempty"`
	Panic string `json:"panic,omitempty"`
}

func guard(f func() (string, error)) (r printResult) {
	defer func() {
		if p := recover(); p != nil {
			r = printResult{Panic: fmt.Sprint(p)}
		}
	}()
	s, err := f()
	if err != nil {
		return printResult{Err: err.Error()}
	}
	return printResult{OK: true, Text: s}
}

type parseErr struct {
	Line int    `json:"line"`
	Col  int    `json:"col"`
	Msg  string `json:"msg"`
}

type parseResult struct {
	OK     bool       `json:"ok"`
	M      *AbsModel  `json:"m,omitempty"`
	Errs   []parseErr `json:"errs,omitempty"`
	Panic  string     `json:"panic,omitempty"`
	NilErr bool       `json:"nilerr,omitempty"` // rejected but no error value / accepted but nil model
}

var synRe = regexp.MustCompile(`^syntax error at line=(-?\d+), column=(-?\d+): (.*)$`)

func splitErrs(err error) []parseErr {
	var out []parseErr
	var me *multierror.Error
	list := []error{err}
	if errors.As(err, &me) {
		list = me.Errors
	}
	for _, e := range list {
		pe := parseErr{Line: -1, Col: -1, Msg: e.Error()}
		if m := synRe.FindStringSubmatch(strings.SplitN(e.Error(), "\n", 2)[0]); m != nil {
			pe.Line, _ = strconv.Atoi(m[1])
			pe.Col, _ = strconv.Atoi(m[2])
			pe.Msg = m[3]
		}
		out = append(out, pe)
	}
	return out
}

// parseDSL parses with a deadline: a parse that does not return is reported like a panic ("hang: ..."); its goroutine cannot be
// stopped, so after three of them the remaining documents of the run are not parsed any more (reported the same way).
var parseHangs int32

func parseDSL(text string, modular bool) (parseResult, *openfgav1.AuthorizationModel) {
	if atomic.LoadInt32(&parseHangs) >= 3 {
		return parseResult{Panic: "hang: not run (three earlier documents did not return)"}, nil
	}
	type out struct {
		res   parseResult
		model *openfgav1.AuthorizationModel
	}
	done := make(chan out, 1)
	go func() {
		r, m := parseDSLNow(text, modular)
		done <- out{r, m}
	}()
	select {
	case o := <-done:
		return o.res, o.model
	case <-time.After(30 * time.Second):
		atomic.AddInt32(&parseHangs, 1)
		return parseResult{Panic: "hang: the parser did not return within 30 s"}, nil
	}
}

func parseDSLNow(text string, modular bool) (res parseResult, model *openfgav1.AuthorizationModel) {
	defer func() {
		if p := recover(); p != nil {
			res = parseResult{Panic: fmt.Sprint(p)}
			model = nil
		}
	}()
	var err error
	if modular {
		model, _, err = transformer.TransformModularDSLToProto(text)
	} else {
		model, err = transformer.TransformDSLToProto(text)
	}
	if err != nil {
		return parseResult{Errs: splitErrs(err), NilErr: model != nil}, nil
	}
	if model == nil {
		return parseResult{NilErr: true}, nil
	}
	if rel := modelTooDeep(model); rel != "" {
		// not a tree: nothing downstream (printer, JSON encoder, comparison) terminates on it
		return parseResult{Panic: "the returned model is not a tree: the rewrite of " + rel + " contains itself"}, nil
	}
	return parseResult{OK: true, M: absModel(model, false)}, model
}

func absEqual(a, b *AbsModel) bool {
	x, _ := json.Marshal(a)
	y, _ := json.Marshal(b)
	return bytes.Equal(x, y)
}

// shuffleJSON re-serialises a JSON document with the keys of every object in a random order.
func shuffleJSON(doc []byte, rng *rand.Rand) []byte {
	var v any
	dec := json.NewDecoder(bytes.NewReader(doc))
	dec.UseNumber()
	if err := dec.Decode(&v); err != nil {
		return doc
	}
	var buf bytes.Buffer
	var emit func(v any)
	emit = func(v any) {
		switch t := v.(type) {
		case map[string]any:
			keys := make([]string, 0, len(t))
			for k := range t {
				keys = append(keys, k)
			}
			sort.Strings(keys)
			rng.Shuffle(len(keys), func(i, j int) { keys[i], keys[j] = keys[j], keys[i] })
			buf.WriteByte('{')
			for i, k := range keys {
				if i > 0 {
					buf.WriteByte(',')
				}
				kb, _ := json.Marshal(k)
				buf.Write(kb)
				buf.WriteByte(':')
				emit(t[k])
			}
			buf.WriteByte('}')
		case []any:
			buf.WriteByte('[')
			for i, x := range t {
				if i > 0 {
					buf.WriteByte(',')
				}
				emit(x)
			}
			buf.WriteByte(']')
		default:
			b, _ := json.Marshal(t)
			buf.Write(b)
		}
	}
	emit(v)
	return buf.Bytes()
}

type dslPrintIn struct {
	ID  string    `json:"id"`
	Rec string    `json:"rec"`
	M   *AbsModel `json:"m"`
}

type dslPrintObs struct {
	ID          string          `json:"id"`
	Proto       printResult     `json:"proto"`        // TransformJSONProtoToDSL
	ProtoSrc    printResult     `json:"proto_src"`    // ... WithIncludeSourceInformation(true)
	JSON        printResult     `json:"json"`         // TransformJSONStringToDSL
	ProtoShared printResult     `json:"proto_shared"` // TransformJSONProtoToDSL on the same model with structurally equal rewrite subtrees shared (one message value)
	Variants    []string        `json:"variants"`     // distinct plain outputs over key orders / type orders / repetitions
	VariantsSrc []string        `json:"variants_src"`
	NVariants   int             `json:"nvariants"`
	Reparse     *parseResult    `json:"reparse,omitempty"`     // parse of the plain output
	ReparseSrc  *parseResult    `json:"reparse_src,omitempty"` // parse of the source-info output
	Unchanged   bool            `json:"input_unchanged"`       // proto.Equal and slice identity of the model handed to the printer
	Assignable  map[string]bool `json:"assignable"`            // utils.IsRelationAssignable per "type#relation"
}

var poisonCache []*openfgav1.AuthorizationModel

// poisonModels are models TransformJSONProtoToDSL refuses after it has rendered part of them.
func poisonModels() []*openfgav1.AuthorizationModel {
	if poisonCache != nil {
		return poisonCache
	}
	for _, js := range []string{
		`{"schema_version":"1.1","type_definitions":[{"type":"user"},{"type":"doc","relations":{"a":{"this":{}}},"metadata":{"relations":{"a":{"directly_related_user_types":[{"type":"user","condition":"aaa_ok"}]}}}}],"conditions":{"aaa_ok":{"name":"aaa_ok","expression":"x < 1","parameters":{"x":{"type_name":"TYPE_NAME_INT"}}},"zzz_bad":{"name":"other_name","expression":"STALE && y % 2 == 0","parameters":{"y":{"type_name":"TYPE_NAME_INT"}}}}}`,
		`{"schema_version":"1.2","type_definitions":[{"type":"aaa","relations":{"ok":{"this":{}}},"metadata":{"module":"stale_module","source_info":{"file":"stale.fga"},"relations":{"ok":{"directly_related_user_types":[{"type":"aaa"}]}}}},{"type":"zzz","relations":{"a":{"this":{}},"bad":{"union":{"child":[{"computedUserset":{"relation":"a"}},{"intersection":{"child":[{"computedUserset":{"relation":"a"}},{"this":{}}]}}]}}},"metadata":{"module":"stale_module","relations":{"a":{"directly_related_user_types":[{"type":"aaa"}]},"bad":{"directly_related_user_types":[{"type":"aaa"}]}}}}]}`,
	} {
		m, err := transformer.LoadJSONStringToProto(js)
		if err != nil {
			panic(err)
		}
		poisonCache = append(poisonCache, m)
	}
	return poisonCache
}

func dslPrint(args []string) error {
	fs := flag.NewFlagSet("dsl-print", flag.ExitOnError)
	in := fs.String("in", "", "input ndjson")
	out := fs.String("out", "", "output ndjson")
	seed := fs.Int64("seed", 1, "seed")
	variants := fs.Int("variants", 0, "JSON key-order / type-order variants x repetitions (C14)")
	fs.Parse(args)
	rng := rand.New(rand.NewSource(*seed))
	w, err := newNDWriter(*out)
	if err != nil {
		return err
	}
	defer w.close()
	return readNDJSON(*in, func(line []byte) error {
		var inp dslPrintIn
		if err := json.Unmarshal(line, &inp); err != nil {
			return err
		}
		obs := dslPrintObs{ID: inp.ID, Variants: []string{}, VariantsSrc: []string{}, Assignable: map[string]bool{}}
		model := protoModel(inp.M)
		before := proto.Clone(model).(*openfgav1.AuthorizationModel)
		beforeSlice := sliceIdentity(model)
		obs.Proto = guard(func() (string, error) { return transformer.TransformJSONProtoToDSL(model) })
		obs.ProtoSrc = guard(func() (string, error) {
			return transformer.TransformJSONProtoToDSL(model, transformer.WithIncludeSourceInformation(true))
		})
		sharedAbs := *inp.M
		sharedAbs.SharedNodes = true
		sharedModel := protoModel(&sharedAbs)
		obs.ProtoShared = guard(func() (string, error) { return transformer.TransformJSONProtoToDSL(sharedModel) })
		obs.Unchanged = proto.Equal(before, model)
		for i, td := range model.GetTypeDefinitions() {
			if i >= len(beforeSlice) || beforeSlice[i] != td {
				obs.Unchanged = false
			}
		}
		js, jerr := protojson.Marshal(before)
		if jerr != nil {
			return jerr
		}
		obs.JSON = guard(func() (string, error) {
			s, err := transformer.TransformJSONStringToDSL(string(js))
			if err != nil {
				return "", err
			}
			return *s, nil
		})
		modular := false
		for _, td := range before.GetTypeDefinitions() {
			modular = modular || td.GetMetadata().GetModule() != ""
		}
		seen, seenSrc := map[string]bool{}, map[string]bool{}
		add := func(r printResult, seen map[string]bool, list *[]string) {
			t := r.Text
			if !r.OK {
				t = "ERROR: " + r.Err + r.Panic
			}
			if !seen[t] {
				seen[t] = true
				*list = append(*list, t)
			}
		}
		for v := 0; v < *variants; v++ {
			doc := shuffleJSON(js, rng)
			pm := proto.Clone(before).(*openfgav1.AuthorizationModel)
			if modular {
				rng.Shuffle(len(pm.TypeDefinitions), func(i, j int) {
					pm.TypeDefinitions[i], pm.TypeDefinitions[j] = pm.TypeDefinitions[j], pm.TypeDefinitions[i]
				})
				// the JSON document gets the same treatment: permute the array
				var g map[string]any
				if json.Unmarshal(doc, &g) == nil {
					if tds, ok := g["type_definitions"].([]any); ok {
						rng.Shuffle(len(tds), func(i, j int) { tds[i], tds[j] = tds[j], tds[i] })
						if b, err := json.Marshal(g); err == nil {
							doc = shuffleJSON(b, rng)
						}
					}
				}
			}
			// the stored form of a model carries an id (v%3 = 1: an id of its own, 2: one id shared by every model of the run):
			// the DSL has no place for it, the output is a function of the content
			if v%3 != 0 {
				id := "01HVMMBCMGZNT3SED4Z17ECXCA"
				if v%3 == 1 {
					id = fmt.Sprintf("01HV%022X", crc32.ChecksumIEEE([]byte(inp.ID)))
				}
				pm.Id = id
				var g map[string]any
				if json.Unmarshal(doc, &g) == nil {
					g["id"] = id
					if b, err := json.Marshal(g); err == nil {
						doc = shuffleJSON(b, rng)
					}
				}
			}
			// an item without module and file may carry an empty metadata message instead of none (every second variant: the first such
			// condition by name and every such type): the same content, "unattributed items first, by name" either way
			if v%2 == 1 {
				names := []string{}
				for n, c := range pm.GetConditions() {
					if c.GetMetadata() == nil {
						names = append(names, n)
					}
				}
				sort.Strings(names)
				if len(names) > 0 {
					pm.Conditions[names[0]].Metadata = &openfgav1.ConditionMetadata{}
				}
				for _, td := range pm.GetTypeDefinitions() {
					if td.GetMetadata() == nil {
						td.Metadata = &openfgav1.Metadata{}
					}
				}
				if b, err := protojson.Marshal(pm); err == nil {
					doc = shuffleJSON(b, rng)
				}
			}
			// the way API clients write models: a relation without a direct assignment (and without attribution) has no entry under
			// metadata.relations at all (every third variant) - absent and empty metadata are the same content
			if v%3 == 2 {
				for _, td := range pm.GetTypeDefinitions() {
					for name, rw := range td.GetRelations() {
						md := td.GetMetadata().GetRelations()[name]
						if md != nil && !isAssignable(rw) && md.GetModule() == "" && md.GetSourceInfo().GetFile() == "" {
							delete(td.Metadata.Relations, name)
						}
					}
				}
				if b, err := protojson.Marshal(pm); err == nil {
					doc = shuffleJSON(b, rng)
				}
			}
			for rep := 0; rep < 3; rep++ {
				obs.NVariants++
				if rep == 1 {
					// between two renderings of the same document: calls the printer REJECTS half way through (a condition stored
					// under another key after a well-formed one, an inexpressible relation after expressible ones) - whatever a failed
					// call leaves behind must not reach the next output
					for _, pm := range poisonModels() {
						guard(func() (string, error) { return transformer.TransformJSONProtoToDSL(pm) })
						guard(func() (string, error) {
							return transformer.TransformJSONProtoToDSL(pm, transformer.WithIncludeSourceInformation(true))
						})
					}
				}
				add(guard(func() (string, error) {
					s, err := transformer.TransformJSONStringToDSL(string(doc))
					if err != nil {
						return "", err
					}
					return *s, nil
				}), seen, &obs.Variants)
				add(guard(func() (string, error) {
					s, err := transformer.TransformJSONStringToDSL(string(doc), transformer.WithIncludeSourceInformation(true))
					if err != nil {
						return "", err
					}
					return *s, nil
				}), seenSrc, &obs.VariantsSrc)
				add(guard(func() (string, error) {
					return transformer.TransformJSONProtoToDSL(proto.Clone(pm).(*openfgav1.AuthorizationModel))
				}), seen, &obs.Variants)
			}
		}
		if obs.Proto.OK {
			r, _ := parseDSL(obs.Proto.Text, false)
			obs.Reparse = &r
		}
		if obs.ProtoSrc.OK {
			r, _ := parseDSL(obs.ProtoSrc.Text, false)
			obs.ReparseSrc = &r
		}
		for _, td := range before.GetTypeDefinitions() {
			for name, rw := range td.GetRelations() {
				obs.Assignable[td.GetType()+"#"+name] = isAssignable(rw)
			}
		}
		return w.write(obs)
	})
}

type dslParseIn struct {
	ID      string `json:"id"`
	Text    string `json:"text"`
	Modular bool   `json:"modular"`
}

type chainObs struct {
	D1      printResult `json:"d1"`       // TransformJSONProtoToDSL(TransformDSLToProto(text)) on the SAME in-memory value
	M2Equal bool        `json:"m2_equal"` // parse(d1) == parse(text)   (abstract equality, expressions modulo outer whitespace)
	M2Err   string      `json:"m2_err,omitempty"`
	D2Equal bool        `json:"d2_equal"` // print(parse(d1)) == d1, byte-wise
	D2Err   string      `json:"d2_err,omitempty"`
	M3Equal bool        `json:"m3_equal"` // parse(d2) == parse(d1) exactly: nothing changes further
	D3Equal bool        `json:"d3_equal"` // print(parse(d2)) == d2, byte-wise: the text is then stable
	J1      printResult `json:"j1"`       // TransformJSONStringToDSL(TransformDSLToJSON(text))
	JEqual  bool        `json:"j_equal"`  // j1 == d1
}

type dslParseObs struct {
	ID    string      `json:"id"`
	Parse parseResult `json:"parse"`
	Lines []int       `json:"lines"` // length of every input line (for position bounds)
	Chain *chainObs   `json:"chain,omitempty"`
}

func trimExprs(m *AbsModel) *AbsModel {
	b, _ := json.Marshal(m)
	var c AbsModel
	json.Unmarshal(b, &c)
	for i := range c.Conds {
		c.Conds[i].Expr = strings.TrimSpace(c.Conds[i].Expr)
	}
	return &c
}

func dslParse(args []string) error {
	fs := flag.NewFlagSet("dsl-parse", flag.ExitOnError)
	in := fs.String("in", "", "input ndjson")
	out := fs.String("out", "", "output ndjson")
	chain := fs.Bool("chain", false, "run the round-trip chain of C01 on accepted model documents")
	fs.Parse(args)
	w, err := newNDWriter(*out)
	if err != nil {
		return err
	}
	defer w.close()
	return readNDJSON(*in, func(line []byte) error {
		var inp dslParseIn
		if err := json.Unmarshal(line, &inp); err != nil {
			return err
		}
		obs := dslParseObs{ID: inp.ID, Lines: []int{}}
		for _, l := range strings.Split(inp.Text, "\n") {
			obs.Lines = append(obs.Lines, len(l))
		}
		var model *openfgav1.AuthorizationModel
		obs.Parse, model = parseDSL(inp.Text, inp.Modular)
		if *chain && obs.Parse.OK && !inp.Modular {
			c := &chainObs{}
			c.D1 = guard(func() (string, error) { return transformer.TransformJSONProtoToDSL(model) })
			if c.D1.OK {
				r2, m2 := parseDSL(c.D1.Text, false)
				if r2.OK {
					c.M2Equal = absEqual(trimExprs(obs.Parse.M), trimExprs(r2.M))
					d2 := guard(func() (string, error) { return transformer.TransformJSONProtoToDSL(m2) })
					c.D2Equal = d2.OK && d2.Text == c.D1.Text
					c.D2Err = d2.Err + d2.Panic
					if d2.OK {
						r3, m3 := parseDSL(d2.Text, false)
						if r3.OK {
							c.M3Equal = absEqual(r2.M, r3.M)
							d3 := guard(func() (string, error) { return transformer.TransformJSONProtoToDSL(m3) })
							c.D3Equal = d3.OK && d3.Text == d2.Text
						} else {
							c.D2Err = fmt.Sprint("second rendering does not parse: ", r3.Errs, r3.Panic)
						}
					}
				} else {
					c.M2Err = fmt.Sprint(r2.Errs, r2.Panic)
				}
			}
			c.J1 = guard(func() (string, error) {
				js, err := transformer.TransformDSLToJSON(inp.Text)
				if err != nil {
					return "", err
				}
				s, err := transformer.TransformJSONStringToDSL(js)
				if err != nil {
					return "", err
				}
				return *s, nil
			})
			c.JEqual = c.J1.OK && c.D1.OK && c.J1.Text == c.D1.Text
			obs.Chain = c
		}
		return w.write(obs)
	})
}

func isAssignable(u *openfgav1.Userset) bool {
	return utilsIsRelationAssignable(u)
}

// ---- listener traces (Impl binding of the parser): one trace per relation declaration ----

type lstEvent struct {
	Ev    string   `json:"ev"`
	Args  []string `json:"args"`
	Nrw   int      `json:"nrw"`
	Op    string   `json:"op"`
	Depth int      `json:"depth"`
}

type lstTrace struct {
	ID     string     `json:"id"`
	Events []lstEvent `json:"events"`
	Result *AbsTree   `json:"result"`
}

func init() {
	commands["listener-record"] = listenerRecord
}

// treeWithNil renders a possibly missing rewrite the way the specification names it
func treeOrNil(t *AbsTree) *AbsTree {
	if t == nil || t.K == "none" {
		return &AbsTree{K: "nil"}
	}
	return t
}

func listenerRecord(args []string) error {
	fs := flag.NewFlagSet("listener-record", flag.ExitOnError)
	in := fs.String("in", "", "input ndjson {id, text}")
	out := fs.String("out", "", "output ndjson: one trace per relation declaration of every accepted document")
	fs.Parse(args)
	w, err := newNDWriter(*out)
	if err != nil {
		return err
	}
	defer w.close()
	return readNDJSON(*in, func(line []byte) error {
		var inp dslParseIn
		if err := json.Unmarshal(line, &inp); err != nil {
			return err
		}
		var traces []*lstTrace
		var cur *lstTrace
		transformer.VerifListenerTrace = func(ev string, a []string, nrw int, op string, depth int) {
			if ev == "EnterRelDecl" {
				cur = &lstTrace{Events: []lstEvent{}}
				traces = append(traces, cur)
			}
			if cur == nil {
				return
			}
			if a == nil {
				a = []string{}
			}
			cur.Events = append(cur.Events, lstEvent{Ev: ev, Args: append([]string{}, a...), Nrw: nrw, Op: op, Depth: depth})
		}
		res, model := parseDSL(inp.Text, inp.Modular)
		transformer.VerifListenerTrace = nil
		if !res.OK || model == nil {
			return nil
		}
		// relation declarations are walked in document order; the stored trees are matched by that order through the names
		// the document was written with: the harness only knows the final map, so each trace carries the tree stored under
		// the name of its declaration - recovered from the order of relations in the document text
		k := 0
		for _, td := range model.GetTypeDefinitions() {
			names := relationOrder(inp.Text, td.GetType(), len(td.GetRelations()))
			for _, n := range names {
				if k >= len(traces) {
					break
				}
				traces[k].ID = fmt.Sprintf("%s/%s#%s", inp.ID, td.GetType(), n)
				traces[k].Result = treeOrNil(absRw(td.GetRelations()[n]))
				k++
			}
		}
		if k != len(traces) {
			return nil // declaration order could not be recovered (duplicate type names): no trace for this document
		}
		for _, t := range traces {
			if err := w.write(t); err != nil {
				return err
			}
		}
		return nil
	})
}

var defineRe = regexp.MustCompile(`(?m)^[ \t]*define[ \t]+([^\s:]+)`)
var typeLineRe = regexp.MustCompile(`(?m)^[ \t]*(?:extend[ \t]+)?type[ \t]+(\S+)`)

// relationOrder returns the relation names of the given type in the order they are declared in the text
func relationOrder(text, typeName string, want int) []string {
	text = strings.ReplaceAll(text, "\r", "")
	locs := typeLineRe.FindAllStringSubmatchIndex(text, -1)
	for i, loc := range locs {
		if text[loc[2]:loc[3]] != typeName {
			continue
		}
		end := len(text)
		if i+1 < len(locs) {
			end = locs[i+1][0]
		}
		var names []string
		for _, m := range defineRe.FindAllStringSubmatch(text[loc[1]:end], -1) {
			names = append(names, m[1])
		}
		if len(names) == want {
			return names
		}
	}
	return nil
}

// ---- token traces: what the lexer produced for the comment-stripped input (verif hook after ParseDSL) ----

// lexer-record: for every document the tokens the real lexer produced for it (hook VerifTokens: type by its symbolic name, text,
// line, column, channel) and whether a lexer error ("token recognition error") was among the reported errors - the trace that
// spec/Lexer.tla validates.
func lexerRecord(args []string) error {
	fs := flag.NewFlagSet("lexer-record", flag.ExitOnError)
	in := fs.String("in", "", "input ndjson {id, text}")
	out := fs.String("out", "", "output ndjson {id, text, tokens, lexerr}")
	fs.Parse(args)
	w, err := newNDWriter(*out)
	if err != nil {
		return err
	}
	defer w.close()
	names := genparser.NewOpenFGALexer(nil).SymbolicNames
	return readNDJSON(*in, func(line []byte) error {
		var inp dslParseIn
		if err := json.Unmarshal(line, &inp); err != nil {
			return err
		}
		toks := [][]any{}
		transformer.VerifTokens = func(t int, x string, l, c, ch int) {
			name := "EOF"
			if t >= 0 && t < len(names) {
				name = names[t]
			}
			toks = append(toks, []any{name, x, l, c, ch})
		}
		lexerr := false
		nlexerr := 0
		panicked := ""
		func() {
			defer func() {
				if r := recover(); r != nil {
					panicked = fmt.Sprint(r)
				}
			}()
			_, _, err := transformer.TransformModularDSLToProto(inp.Text)
			if err != nil {
				nlexerr = strings.Count(err.Error(), "token recognition error at: ")
				lexerr = nlexerr > 0
			}
		}()
		transformer.VerifTokens = nil
		return w.write(map[string]any{"id": inp.ID, "text": inp.Text, "tokens": toks, "lexerr": lexerr, "nlexerr": nlexerr, "panic": panicked})
	})
}

type tokRec struct {
	Type int    `json:"t"`
	Text string `json:"x"`
	Line int    `json:"l"`
	Col  int    `json:"c"`
	Ch   int    `json:"ch"`
}

func init() {
	commands["dsl-tokens"] = dslTokens
	commands["lexer-record"] = lexerRecord
	commands["lexer-record"] = lexerRecord
}

func dslTokens(args []string) error {
	fs := flag.NewFlagSet("dsl-tokens", flag.ExitOnError)
	in := fs.String("in", "", "input ndjson {id, text}")
	out := fs.String("out", "", "output ndjson {id, tokens}")
	fs.Parse(args)
	w, err := newNDWriter(*out)
	if err != nil {
		return err
	}
	defer w.close()
	return readNDJSON(*in, func(line []byte) error {
		var inp dslParseIn
		if err := json.Unmarshal(line, &inp); err != nil {
			return err
		}
		toks := []tokRec{}
		transformer.VerifTokens = func(t int, x string, l, c, ch int) {
			toks = append(toks, tokRec{t, x, l, c, ch})
		}
		func() {
			defer func() { recover() }()
			transformer.TransformModularDSLToProto(inp.Text)
		}()
		transformer.VerifTokens = nil
		return w.write(map[string]any{"id": inp.ID, "tokens": toks})
	})
}
