package main

import (
	"flag"
	"fmt"
	"math/rand"
	"sort"
)

func init() {
	commands["wg-gen"] = wgGen
}

// wgGen writes seeded random abstract models, larger than the universe TLC enumerates (several object types, 3-5
// relations each, rewrite trees of depth <= 2, usersets and TTUs across types, several public types).
func wgGen(args []string) error {
	fs := flag.NewFlagSet("wg-gen", flag.ExitOnError)
	out := fs.String("out", "", "output ndjson")
	seed := fs.Int64("seed", 1, "seed")
	n := fs.Int("n", 100, "number of models")
	maxTypes := fs.Int("types", 3, "max object types")
	maxRels := fs.Int("rels", 4, "max free relations per object type")
	fs.Parse(args)
	rng := rand.New(rand.NewSource(*seed))
	w, err := newNDWriter(*out)
	if err != nil {
		return err
	}
	defer w.close()
	for i := 0; i < *n; i++ {
		m := randomModel(rng, *maxTypes, *maxRels)
		if err := w.write(map[string]any{"id": fmt.Sprintf("r%d.%d", *seed, i), "m": m}); err != nil {
			return err
		}
	}
	return nil
}

func randomModel(rng *rand.Rand, maxTypes, maxRels int) *AbsModel {
	users := []string{"user", "emp", "bot", "app", "svc"}[:2+rng.Intn(4)]
	// "public" models (1 in 8): seven user types, direct assignments list many public restrictions and usersets, unions only:
	// wildcard lists of three and more entries are merged into several parents (where list storage, not only the set, matters)
	public := rng.Intn(8) == 0
	if public {
		users = []string{"user", "emp", "bot", "app", "svc", "dev", "ops"}
	}
	objs := []string{"doc", "fld", "grp", "org"}[:1+rng.Intn(maxTypes)]
	relNames := []string{"a", "b", "c", "d", "e", "f"}
	relsOf := map[string][]string{}
	for _, o := range objs {
		relsOf[o] = append([]string{}, relNames[:2+rng.Intn(maxRels-1)]...)
	}
	wild := !public && rng.Intn(3) == 0 // "wild" models reference anything anywhere (mostly rejected); tame ones are biased towards acceptance
	// "cyclic" models: unions only, every direct assignment lists usersets of arbitrary relations and tuple-to-usersets abound,
	// so that several tuple cycles interlock (accepted, weights Infinite): the cycle-resolution code is where map orders matter
	cyclic := public || (!wild && rng.Intn(3) == 0)
	conds := []string{"", "", "", "c1", "c2"}
	m := &AbsModel{Types: []AbsType{}}
	pick := func(xs []string) string { return xs[rng.Intn(len(xs))] }
	parentsOf := map[string][]string{}
	for _, o := range objs {
		parentsOf[o] = []string{pick(objs)}
		for rng.Intn(2) == 0 && len(parentsOf[o]) < 4 {
			// repeated parent types (with different conditions) are deliberate: the builder de-duplicates TTU edges
			parentsOf[o] = append(parentsOf[o], pick(objs))
		}
	}
	for _, o := range objs {
		at := AbsType{Name: o, Rels: []AbsRel{}}
		parents := []AbsRestr{}
		for i, pt := range parentsOf[o] {
			c := ""
			if i > 0 {
				c = pick(conds)
			}
			parents = append(parents, AbsRestr{T: pt, Kind: "type", Cond: c})
		}
		at.Rels = append(at.Rels, AbsRel{Name: "p", Rw: &AbsTree{K: "this"}, Restr: parents})
		// relations every parent type has (so that `x from p` is well-formed)
		common := []string{}
		for _, r := range relNames {
			ok := true
			for _, pt := range parentsOf[o] {
				found := false
				for _, x := range relsOf[pt] {
					found = found || x == r
				}
				ok = ok && found
			}
			if ok {
				common = append(common, r)
			}
		}
		for ri, r := range relsOf[o] {
			usedThis := false
			leaf := func() *AbsTree {
				switch x := rng.Intn(10); {
				case x < 5:
					usedThis = true
					return &AbsTree{K: "this"}
				case x < 8:
					if cyclic {
						usedThis = true
						return &AbsTree{K: "this"}
					}
					if !wild && ri > 0 {
						return &AbsTree{K: "cu", Rel: relsOf[o][rng.Intn(ri)]}
					}
					if !wild {
						usedThis = true
						return &AbsTree{K: "this"}
					}
					return &AbsTree{K: "cu", Rel: pick(relsOf[o])}
				default:
					if wild || len(common) == 0 {
						return &AbsTree{K: "ttu", Rel: pick(relNames[:3]), Ts: "p"}
					}
					return &AbsTree{K: "ttu", Rel: pick(common), Ts: "p"}
				}
			}
			var tree func(depth int, constrained bool) *AbsTree
			tree = func(depth int, constrained bool) *AbsTree {
				if depth == 0 || rng.Intn(3) == 0 {
					if constrained && !wild {
						// operands of AND / BUT NOT: keep away from cycles
						if ri > 0 && rng.Intn(2) == 0 {
							return &AbsTree{K: "cu", Rel: relsOf[o][rng.Intn(ri)]}
						}
						// several tuple-to-userset operands over the one tupleset `p` under one AND / BUT NOT
						if len(common) > 0 && rng.Intn(4) == 0 {
							return &AbsTree{K: "ttu", Rel: pick(common), Ts: "p"}
						}
						usedThis = true
						return &AbsTree{K: "this"}
					}
					return leaf()
				}
				switch x := rng.Intn(8); {
				case x < 5 || cyclic:
					t := &AbsTree{K: "union"}
					for k := 0; k < 2+rng.Intn(2); k++ {
						t.Ch = append(t.Ch, tree(depth-1, constrained))
					}
					return t
				case x < 7:
					t := &AbsTree{K: "inter"}
					for k := 0; k < 2+rng.Intn(2); k++ {
						t.Ch = append(t.Ch, tree(depth-1, true))
					}
					return t
				default:
					return &AbsTree{K: "diff", Ch: []*AbsTree{tree(depth-1, true), tree(depth-1, true)}}
				}
			}
			// one relation in four nests operators three deep (operators of one kind at the same depth under different parents)
			rw := tree(2+(rng.Intn(4)+1)/4, false)
			restr := []AbsRestr{}
			if usedThis {
				k := 1 + rng.Intn(4)
				if public {
					k = 2 + rng.Intn(5)
				}
				for j := 0; j < k; j++ {
					x := rng.Intn(10)
					if public && x < 4 {
						x = 4 + rng.Intn(6)
					}
					switch {
					case x < 4 && !(cyclic && j > 0):
						restr = append(restr, AbsRestr{T: users[rng.Intn(1+rng.Intn(len(users)))], Kind: "type", Cond: pick(conds)})
					case x < 7:
						restr = append(restr, AbsRestr{T: pick(users), Kind: "wild", Cond: pick(conds)})
					default:
						oo := pick(objs)
						restr = append(restr, AbsRestr{T: oo, Kind: "uset", Rel: pick(relsOf[oo]), Cond: pick(conds)})
					}
				}
				if !wild {
					restr = append([]AbsRestr{{T: users[0], Kind: "type"}}, restr...)
				}
			}
			at.Rels = append(at.Rels, AbsRel{Name: r, Rw: rw, Restr: restr})
		}
		sort.Slice(at.Rels, func(i, j int) bool { return at.Rels[i].Name < at.Rels[j].Name })
		m.Types = append(m.Types, at)
	}
	for _, u := range users {
		m.Types = append(m.Types, AbsType{Name: u, Rels: []AbsRel{}})
	}
	sort.Slice(m.Types, func(i, j int) bool { return m.Types[i].Name < m.Types[j].Name })
	return m
}
