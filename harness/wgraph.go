package main

import (
	"encoding/json"
	"errors"
	"flag"
	"fmt"
	"math/rand"
	"sort"
	"strings"
	"sync"

	openfgav1 "github.com/openfga/api/proto/openfga/v1"
	"github.com/openfga/language/pkg/go/graph"
	"google.golang.org/protobuf/proto"
)

func init() {
	commands["wg-replay"] = wgReplay
}

const absInf = 1000000

type wgNode struct {
	ID    string `json:"id"`
	Nt    string `json:"nt"`
	Label string `json:"label"`
}

type wgEdge struct {
	From  string   `json:"from"`
	To    string   `json:"to"`
	Kind  string   `json:"kind"`
	Ts    string   `json:"ts"`
	Conds []string `json:"conds"`
}

type wgStructure struct {
	Nodes []wgNode            `json:"nodes"`
	Edges map[string][]wgEdge `json:"edges"` // per source, in order
}

type wgOutcome struct {
	Result string    `json:"result"` // ok | modelcycle | tuplecycle | invalid | other | panic
	Err    string    `json:"err,omitempty"`
	NW     [][]any   `json:"nw"`   // [node, "T"|"R", key, weight]
	EW     [][]any   `json:"ew"`   // [from, k, "T"|"R", key, weight]
	NWC    [][]any   `json:"nwc"`  // [node, type]
	EWC    [][]any   `json:"ewc"`  // [from, k, type]
	WDup   bool      `json:"wdup"` // some wildcard list contains a duplicate
	Roots  []string  `json:"roots"`
	Forced bool      `json:"forced"`
	Count  int       `json:"count"`
	Events []wgEvent `json:"events,omitempty"` // steps of the weight assignment as they returned (first run with this outcome)
	key    string
}

// wgEvent is one call of the hook VerifOnWeightStep, projected the way spec/WGraph.tla (section 4b) holds the same point of
// the algorithm: what the step returned and the weights / wildcards of the node or edge concerned at that moment.
type wgEvent struct {
	K   string   `json:"k"` // edge | node | root
	ID  string   `json:"id"`
	Pos int      `json:"pos"` // 1-based position of the edge in its source's list (edge events)
	W   [][]any  `json:"w"`   // [tag, key, weight]
	WC  []string `json:"wc"`
	Cyc []string `json:"cyc"`
	Err string   `json:"err"`
	NW  [][]any  `json:"nw"` // root events: the whole weight state (empty otherwise)
	EW  [][]any  `json:"ew"`
	NWC [][]any  `json:"nwc"`
	EWC [][]any  `json:"ewc"`
}

func errClass(err error) string {
	switch {
	case err == nil:
		return "none"
	case errors.Is(err, graph.ErrModelCycle):
		return "modelcycle"
	case errors.Is(err, graph.ErrTupleCycle):
		return "tuplecycle"
	case errors.Is(err, graph.ErrInvalidModel):
		return "invalid"
	}
	return "other"
}

func weightRows(w map[string]int, cn map[string]string) [][]any {
	rows := [][]any{}
	for k, v := range w {
		tag, key := splitKey(k)
		if tag == "R" {
			key = cn[key]
		}
		rows = append(rows, []any{tag, key, absW(v)})
	}
	sortRows(rows)
	return rows
}

func canonList(xs []string, cn map[string]string) []string {
	out := []string{}
	for _, x := range xs {
		if cn != nil {
			x = cn[x]
		}
		out = append(out, x)
	}
	sort.Strings(out)
	return out
}

// fullState is outcomeOf's projection of weights and wildcards, whatever the verdict (used inside root events).
func fullState(g *graph.WeightedAuthorizationModelGraph, cn map[string]string) (nw, ew, nwc, ewc [][]any) {
	nw, ew, nwc, ewc = [][]any{}, [][]any{}, [][]any{}, [][]any{}
	for id, n := range g.GetNodes() {
		for _, r := range weightRows(n.GetWeights(), cn) {
			nw = append(nw, append([]any{cn[id]}, r...))
		}
		for _, t := range n.GetWildcards() {
			nwc = append(nwc, []any{cn[id], t})
		}
	}
	for from, es := range g.GetEdges() {
		for i, e := range es {
			for _, r := range weightRows(e.GetWeights(), cn) {
				ew = append(ew, append([]any{cn[from], i + 1}, r...))
			}
			for _, t := range e.GetWildcards() {
				ewc = append(ewc, []any{cn[from], i + 1, t})
			}
		}
	}
	sortRows(nw)
	sortRows(ew)
	sortRows(nwc)
	sortRows(ewc)
	return
}

func nodeTypeName(t graph.NodeType) string {
	switch t {
	case graph.SpecificType:
		return "type"
	case graph.SpecificTypeAndRelation:
		return "rel"
	case graph.OperatorNode:
		return "op"
	case graph.SpecificTypeWildcard:
		return "wild"
	}
	return fmt.Sprintf("nt%d", t)
}

func edgeKindName(t graph.EdgeType) string {
	switch t {
	case graph.DirectEdge:
		return "direct"
	case graph.RewriteEdge:
		return "rewrite"
	case graph.TTUEdge:
		return "ttu"
	case graph.ComputedEdge:
		return "computed"
	}
	return fmt.Sprintf("ek%d", t)
}

// canonWG renames operator nodes (random ULID labels) positionally: parent + "/" + (1-based index of the edge that
// creates it in the parent's edge list) - the naming Graph(M) uses in the specification.
func canonWG(g *graph.WeightedAuthorizationModelGraph) map[string]string {
	m := map[string]string{}
	var walk func(id, cid string)
	walk = func(id, cid string) {
		if _, seen := m[id]; seen {
			return
		}
		m[id] = cid
		for i, e := range g.GetEdges()[id] {
			if e.GetTo().GetNodeType() == graph.OperatorNode {
				walk(e.GetTo().GetUniqueLabel(), fmt.Sprintf("%s/%d", cid, i+1))
			}
		}
	}
	ids := []string{}
	for id, n := range g.GetNodes() {
		if n.GetNodeType() != graph.OperatorNode {
			ids = append(ids, id)
		}
	}
	sort.Strings(ids)
	for _, id := range ids {
		walk(id, id)
	}
	// operator nodes not reachable from any non-operator node keep their own name (never happens with Build)
	for id := range g.GetNodes() {
		if _, ok := m[id]; !ok {
			m[id] = "?" + id
		}
	}
	return m
}

func structureOf(g *graph.WeightedAuthorizationModelGraph, cn map[string]string) *wgStructure {
	st := &wgStructure{Nodes: []wgNode{}, Edges: map[string][]wgEdge{}}
	for id, n := range g.GetNodes() {
		st.Nodes = append(st.Nodes, wgNode{ID: cn[id], Nt: nodeTypeName(n.GetNodeType()), Label: n.GetLabel()})
	}
	sort.Slice(st.Nodes, func(i, j int) bool { return st.Nodes[i].ID < st.Nodes[j].ID })
	for from, es := range g.GetEdges() {
		out := []wgEdge{}
		for _, e := range es {
			conds := append([]string{}, e.GetConditions()...)
			out = append(out, wgEdge{From: cn[e.GetFrom().GetUniqueLabel()], To: cn[e.GetTo().GetUniqueLabel()], Kind: edgeKindName(e.GetEdgeType()),
				Ts: e.GetTuplesetRelation(), Conds: conds})
		}
		st.Edges[cn[from]] = out
	}
	return st
}

func splitKey(k string) (string, string) {
	if strings.HasPrefix(k, "R#") {
		return "R", strings.TrimPrefix(k, "R#")
	}
	return "T", k
}

func absW(w int) int {
	if w >= graph.Infinite {
		return absInf
	}
	return w
}

func hasDup(s []string) bool {
	seen := map[string]bool{}
	for _, x := range s {
		if seen[x] {
			return true
		}
		seen[x] = true
	}
	return false
}

func sortRows(rows [][]any) {
	sort.Slice(rows, func(i, j int) bool { return fmt.Sprint(rows[i]...) < fmt.Sprint(rows[j]...) })
}

func outcomeOf(g *graph.WeightedAuthorizationModelGraph, err error, cn map[string]string, panicked any) *wgOutcome {
	o := &wgOutcome{NW: [][]any{}, EW: [][]any{}, NWC: [][]any{}, EWC: [][]any{}}
	switch {
	case panicked != nil:
		o.Result, o.Err = "panic", fmt.Sprint(panicked)
	case err != nil:
		o.Err = err.Error()
		switch {
		case errors.Is(err, graph.ErrModelCycle):
			o.Result = "modelcycle"
		case errors.Is(err, graph.ErrTupleCycle):
			o.Result = "tuplecycle"
		case errors.Is(err, graph.ErrInvalidModel):
			o.Result = "invalid"
		default:
			o.Result = "other"
		}
	default:
		o.Result = "ok"
		for id, n := range g.GetNodes() {
			for k, w := range n.GetWeights() {
				tag, key := splitKey(k)
				if tag == "R" {
					key = cn[key]
				}
				o.NW = append(o.NW, []any{cn[id], tag, key, absW(w)})
			}
			for _, t := range n.GetWildcards() {
				o.NWC = append(o.NWC, []any{cn[id], t})
			}
			o.WDup = o.WDup || hasDup(n.GetWildcards())
		}
		for from, es := range g.GetEdges() {
			for i, e := range es {
				for k, w := range e.GetWeights() {
					tag, key := splitKey(k)
					if tag == "R" {
						key = cn[key]
					}
					o.EW = append(o.EW, []any{cn[from], i + 1, tag, key, absW(w)})
				}
				for _, t := range e.GetWildcards() {
					o.EWC = append(o.EWC, []any{cn[from], i + 1, t})
				}
				o.WDup = o.WDup || hasDup(e.GetWildcards())
			}
		}
		sortRows(o.NW)
		sortRows(o.EW)
		sortRows(o.NWC)
		sortRows(o.EWC)
	}
	kb, _ := json.Marshal([]any{o.Result, o.NW, o.EW, o.NWC, o.EWC, o.WDup})
	o.key = string(kb)
	return o
}

type wgRun struct {
	g       *graph.WeightedAuthorizationModelGraph
	st      *wgStructure
	cn      map[string]string
	outcome *wgOutcome
	roots   []string
	events  []wgEvent
}

// recordWGEvents switches the event hook on for the builds of this process (wg-replay -events)
var recordWGEvents bool

var hookMu sync.Mutex

// sharedBuilder lives as long as the process: every second natural-order build goes through it, so that state kept
// on a builder between Build calls (history dependence) shows up as a differing outcome.
var sharedBuilder = graph.NewWeightedAuthorizationModelGraphBuilder()
var buildCount int

// buildWG runs the real builder once. forced == nil: natural (map iteration) order, roots logged through the hook.
func buildWG(model *openfgav1.AuthorizationModel, forced []string) (run *wgRun) {
	return buildWGWith(model, forced, false)
}

func buildWGWith(model *openfgav1.AuthorizationModel, forced []string, shared bool) (run *wgRun) {
	hookMu.Lock()
	defer hookMu.Unlock()
	run = &wgRun{}
	var rawRoots []string
	graph.VerifOnStructure = func(wg *graph.WeightedAuthorizationModelGraph) {
		run.cn = canonWG(wg)
		run.st = structureOf(wg, run.cn)
		if forced != nil {
			inv := map[string]string{}
			for real, c := range run.cn {
				inv[c] = real
			}
			order := []string{}
			for _, c := range forced {
				if real, ok := inv[c]; ok {
					order = append(order, real)
				}
			}
			graph.VerifRootOrder = order
		}
	}
	graph.VerifOnRoot = func(id string, terminal bool) {
		if !terminal {
			rawRoots = append(rawRoots, id)
		}
	}
	if recordWGEvents {
		graph.VerifOnWeightStep = func(wg *graph.WeightedAuthorizationModelGraph, kind string, node string, edge *graph.WeightedAuthorizationModelEdge, cycles []string, err error) {
			n := wg.GetNodes()[node]
			ev := wgEvent{K: kind, ID: run.cn[node], Cyc: canonList(cycles, run.cn), Err: errClass(err), NW: [][]any{}, EW: [][]any{}, NWC: [][]any{}, EWC: [][]any{}}
			switch kind {
			case "edge":
				for i, e := range wg.GetEdges()[node] {
					if e == edge {
						ev.Pos = i + 1
					}
				}
				ev.W, ev.WC = weightRows(edge.GetWeights(), run.cn), canonList(edge.GetWildcards(), nil)
			case "node":
				ev.W, ev.WC = weightRows(n.GetWeights(), run.cn), canonList(n.GetWildcards(), nil)
			case "root":
				if n.GetNodeType() == graph.SpecificType || n.GetNodeType() == graph.SpecificTypeWildcard {
					return // the loop of AssignWeights also passes over terminal nodes; nothing is computed for them
				}
				ev.W, ev.WC = weightRows(n.GetWeights(), run.cn), canonList(n.GetWildcards(), nil)
				ev.NW, ev.EW, ev.NWC, ev.EWC = fullState(wg, run.cn)
			}
			run.events = append(run.events, ev)
		}
	}
	defer func() {
		graph.VerifOnStructure, graph.VerifOnRoot, graph.VerifRootOrder, graph.VerifOnWeightStep = nil, nil, nil, nil
	}()
	var g *graph.WeightedAuthorizationModelGraph
	var err error
	var panicked any
	func() {
		defer func() { panicked = recover() }()
		b := graph.NewWeightedAuthorizationModelGraphBuilder()
		buildCount++
		if forced == nil && shared {
			b = sharedBuilder
		}
		g, err = b.Build(model)
	}()
	if run.cn == nil {
		run.cn = map[string]string{}
	}
	run.g = g
	run.outcome = outcomeOf(g, err, run.cn, panicked)
	run.outcome.Events = run.events
	if forced != nil {
		run.outcome.Roots, run.outcome.Forced = forced, true
	} else {
		for _, r := range rawRoots {
			run.roots = append(run.roots, run.cn[r])
		}
		run.outcome.Roots = run.roots
	}
	if run.outcome.Roots == nil {
		run.outcome.Roots = []string{}
	}
	return run
}

type wgInput struct {
	ID    string     `json:"id"`
	M     *AbsModel  `json:"m"`
	Roots [][]string `json:"roots"`
}

type wgObs struct {
	ID                     string       `json:"id"`
	M                      *AbsModel    `json:"m,omitempty"`
	Structure              *wgStructure `json:"structure"`
	BuildErr               string       `json:"builderr,omitempty"` // Build failed before AssignWeights (no structure hook call)
	Outcomes               []*wgOutcome `json:"outcomes"`
	Witness                []*wgOutcome `json:"witness"` // outcome of every order TLC asked for, in input order
	Runs                   int          `json:"runs"`
	Exhaustive             bool         `json:"exhaustive"`               // all root orders were forced
	ModelUnchanged         bool         `json:"model_unchanged"`          // proto.Equal + slice order before/after all builds
	HookConsistent         bool         `json:"hook_consistent"`          // logged natural order replayed through the forced path gives the same outcome
	APIStructureDiffers    bool         `json:"api_structure_differs"`    // the API-style protobuf of the same model gives another structure
	SharedStructureDiffers bool         `json:"shared_structure_differs"` // the same model with structurally equal subtrees shared (one message value) gives another structure
	TypePerm               []*wgOutcome `json:"typeperm,omitempty"`
	SplitPerm              []*wgOutcome `json:"splitperm,omitempty"` // distinct outcomes over the orders of a model in which one type is defined in two parts
	OpPerm                 []wgOpPerm   `json:"opperm,omitempty"`
	Conc                   []*wgOutcome `json:"conc,omitempty"`
}

type wgOpPerm struct {
	Desc     string   `json:"desc"`
	RelRows  []string `json:"rel_rows"`  // relation-node weights + wildcards of the permuted model (first natural run)
	BaseRows []string `json:"base_rows"` // same projection for the unpermuted model under the same kind of run
	Result   string   `json:"result"`
	Base     string   `json:"base"`
}

func permutations(xs []string, limit int, rng *rand.Rand) ([][]string, bool) {
	n := len(xs)
	total := 1
	for i := 2; i <= n; i++ {
		total *= i
		if total > limit {
			break
		}
	}
	if total <= limit {
		var out [][]string
		var rec func(k int)
		a := append([]string{}, xs...)
		rec = func(k int) {
			if k == n {
				out = append(out, append([]string{}, a...))
				return
			}
			for i := k; i < n; i++ {
				a[k], a[i] = a[i], a[k]
				rec(k + 1)
				a[k], a[i] = a[i], a[k]
			}
		}
		rec(0)
		return out, true
	}
	out := make([][]string, 0, limit)
	for i := 0; i < limit; i++ {
		a := append([]string{}, xs...)
		rng.Shuffle(n, func(i, j int) { a[i], a[j] = a[j], a[i] })
		out = append(out, a)
	}
	return out, false
}

func relRows(o *wgOutcome) []string {
	rows := []string{}
	for _, r := range o.NW {
		if !strings.Contains(r[0].(string), "/") {
			rows = append(rows, fmt.Sprint("w ", r))
		}
	}
	for _, r := range o.NWC {
		if !strings.Contains(r[0].(string), "/") {
			rows = append(rows, fmt.Sprint("c ", r))
		}
	}
	sort.Strings(rows)
	return rows
}

// commutative operand permutations: every union/intersection node of the model, children reversed and rotated
func operandPerms(am *AbsModel) []struct {
	desc string
	m    *AbsModel
} {
	var out []struct {
		desc string
		m    *AbsModel
	}
	clone := func() *AbsModel {
		b, _ := json.Marshal(am)
		var c AbsModel
		json.Unmarshal(b, &c)
		return &c
	}
	type site struct {
		ti, ri int
		path   []int
	}
	var sites []site
	var walk func(t *AbsTree, ti, ri int, path []int)
	walk = func(t *AbsTree, ti, ri int, path []int) {
		if t == nil {
			return
		}
		if (t.K == "union" || t.K == "inter") && len(t.Ch) > 1 {
			sites = append(sites, site{ti, ri, append([]int{}, path...)})
		}
		for i, c := range t.Ch {
			walk(c, ti, ri, append(path, i))
		}
	}
	for ti, t := range am.Types {
		for ri, r := range t.Rels {
			walk(r.Rw, ti, ri, nil)
		}
	}
	for _, s := range sites {
		for _, how := range []string{"reverse", "rotate"} {
			c := clone()
			t := c.Types[s.ti].Rels[s.ri].Rw
			for _, i := range s.path {
				t = t.Ch[i]
			}
			if how == "reverse" {
				for i, j := 0, len(t.Ch)-1; i < j; i, j = i+1, j-1 {
					t.Ch[i], t.Ch[j] = t.Ch[j], t.Ch[i]
				}
			} else {
				if len(t.Ch) < 3 {
					continue
				}
				t.Ch = append(t.Ch[1:], t.Ch[0])
			}
			out = append(out, struct {
				desc string
				m    *AbsModel
			}{fmt.Sprintf("%s %s#%s %v", how, c.Types[s.ti].Name, c.Types[s.ti].Rels[s.ri].Name, s.path), c})
		}
	}
	return out
}

func sliceIdentity(m *openfgav1.AuthorizationModel) []*openfgav1.TypeDefinition {
	return append([]*openfgav1.TypeDefinition{}, m.GetTypeDefinitions()...)
}

var recycledWGModel = &openfgav1.AuthorizationModel{}
var previousWGModel *openfgav1.AuthorizationModel

// splitTypeDefs returns the model with its first type of two or more relations defined twice: the relations (and their metadata)
// whose names sort into the first half in one definition, the others in a second definition of the same name; nil if there is none.
func splitTypeDefs(model *openfgav1.AuthorizationModel) *openfgav1.AuthorizationModel {
	out := proto.Clone(model).(*openfgav1.AuthorizationModel)
	for i, td := range out.GetTypeDefinitions() {
		if len(td.GetRelations()) < 2 {
			continue
		}
		names := []string{}
		for n := range td.GetRelations() {
			names = append(names, n)
		}
		sort.Strings(names)
		second := &openfgav1.TypeDefinition{Type: td.GetType(), Relations: map[string]*openfgav1.Userset{}, Metadata: &openfgav1.Metadata{Relations: map[string]*openfgav1.RelationMetadata{}}}
		for _, n := range names[len(names)/2:] {
			second.Relations[n] = td.Relations[n]
			delete(td.Relations, n)
			if md, ok := td.GetMetadata().GetRelations()[n]; ok {
				second.Metadata.Relations[n] = md
				delete(td.Metadata.Relations, n)
			}
		}
		out.TypeDefinitions = append(out.TypeDefinitions[:i+1], append([]*openfgav1.TypeDefinition{second}, out.TypeDefinitions[i+1:]...)...)
		return out
	}
	return nil
}

// stripR undoes the renaming of every type to R<name> in an outcome (node ids, placeholder and type keys, public types, roots).
func stripR(o *wgOutcome) *wgOutcome {
	cut := func(x any) any {
		if s, ok := x.(string); ok && strings.HasPrefix(s, "R") {
			return s[1:]
		}
		return x
	}
	for _, r := range o.NW {
		r[0], r[2] = cut(r[0]), cut(r[2])
	}
	for _, r := range o.EW {
		r[0], r[3] = cut(r[0]), cut(r[3])
	}
	for _, r := range o.NWC {
		r[0], r[1] = cut(r[0]), cut(r[1])
	}
	for _, r := range o.EWC {
		r[0], r[2] = cut(r[0]), cut(r[2])
	}
	for i, r := range o.Roots {
		o.Roots[i] = strings.TrimPrefix(r, "R")
	}
	sortRows(o.NW)
	sortRows(o.EW)
	sortRows(o.NWC)
	sortRows(o.EWC)
	o.Events = nil
	kb, _ := json.Marshal([]any{o.Result, o.NW, o.EW, o.NWC, o.EWC, o.WDup})
	o.key = string(kb)
	return o
}

func sameJSON(a, b any) bool {
	x, _ := json.Marshal(a)
	y, _ := json.Marshal(b)
	return string(x) == string(y)
}

func wgReplay(args []string) error {
	fs := flag.NewFlagSet("wg-replay", flag.ExitOnError)
	in := fs.String("in", "", "input ndjson")
	out := fs.String("out", "", "output ndjson")
	seed := fs.Int64("seed", 1, "seed")
	natural := fs.Int("natural", 20, "natural-order runs per model")
	maxPerm := fs.Int("maxperm", 720, "forced root orders per model (all permutations if fewer)")
	perm := fs.Bool("perm", false, "also run type-definition and operand permutations")
	conc := fs.Int("conc", 0, "concurrent builds per model")
	echo := fs.Bool("echo", false, "echo the abstract model into the observation")
	events := fs.Bool("events", false, "record the steps of the weight assignment (hook VerifOnWeightStep) of every hooked build")
	fs.Parse(args)
	recordWGEvents = *events
	rng := rand.New(rand.NewSource(*seed))
	w, err := newNDWriter(*out)
	if err != nil {
		return err
	}
	defer w.close()
	return readNDJSON(*in, func(line []byte) error {
		var inp wgInput
		if err := json.Unmarshal(line, &inp); err != nil {
			return err
		}
		model := protoModel(inp.M)
		before := proto.Clone(model).(*openfgav1.AuthorizationModel)
		beforeSlice := sliceIdentity(model)
		obs := &wgObs{ID: inp.ID, Outcomes: []*wgOutcome{}, Witness: []*wgOutcome{}, HookConsistent: true}
		if *echo {
			obs.M = inp.M
		}
		distinct := map[string]*wgOutcome{}
		record := func(o *wgOutcome) {
			obs.Runs++
			if d, ok := distinct[o.key]; ok {
				d.Count++
				return
			}
			o.Count = 1
			distinct[o.key] = o
			obs.Outcomes = append(obs.Outcomes, o)
		}
		var nonTerm []string
		for i := 0; i < *natural; i++ {
			// from the fourth natural run on, every second build re-uses the process-wide builder
			run := buildWGWith(model, nil, i >= 3 && i%2 == 1)
			if obs.Structure == nil {
				obs.Structure = run.st
			}
			if run.st == nil {
				obs.BuildErr = run.outcome.Err
			}
			record(run.outcome)
			if i < 3 && run.st != nil {
				// hook self-check: the logged natural order through the forced path must give the same outcome
				re := buildWG(model, append([]string{}, run.roots...))
				if re.outcome.key != run.outcome.key {
					// either the forced-order copy of the loop is out of sync with the real loop, or the outcome depends on
					// more than the root order (iteration order of a weight map): the latter shows as the forced path
					// itself giving different outcomes for this one order - those are observations like any other
					varies := false
					for k := 0; k < 25 && !varies; k++ {
						again := buildWG(model, append([]string{}, run.roots...))
						varies = again.outcome.key != re.outcome.key
						record(again.outcome)
					}
					record(re.outcome)
					if !varies {
						obs.HookConsistent = false
					}
				}
			}
		}
		// a caller that re-uses ONE message value for model after model (proto.Reset ; proto.Merge): the identity of the message is
		// not the identity of the model - whatever the previous model left behind under that pointer must not be used. The previous
		// model of this run and this one are built back to back through the same message, nothing else in between.
		for i := 0; i < 2; i++ {
			if previousWGModel != nil {
				proto.Reset(recycledWGModel)
				proto.Merge(recycledWGModel, previousWGModel)
				buildWG(recycledWGModel, nil)
			}
			proto.Reset(recycledWGModel)
			proto.Merge(recycledWGModel, before)
			record(buildWG(recycledWGModel, nil).outcome)
		}
		previousWGModel = before
		// the same model shaped the way API clients write it (metadata entries only for relations with a direct assignment):
		// structure and weights do not depend on that
		apiAbs := *inp.M
		apiAbs.APIStyle = true
		apiModel := protoModel(&apiAbs)
		for i := 0; i < 3; i++ {
			run := buildWG(apiModel, nil)
			if run.st != nil && obs.Structure != nil {
				a, _ := json.Marshal(run.st)
				b, _ := json.Marshal(obs.Structure)
				if string(a) != string(b) {
					obs.APIStructureDiffers = true
				}
			}
			record(run.outcome)
		}
		// AssignWeights is an exported method: called once more on a graph Build has accepted it finds everything weighted and
		// leaves it so (weights, wildcards of nodes and edges)
		if again := buildWG(model, nil); again.g != nil && again.outcome.Result == "ok" {
			var err2 error
			var p2 any
			func() {
				defer func() { p2 = recover() }()
				err2 = again.g.AssignWeights()
			}()
			o2 := outcomeOf(again.g, err2, again.cn, p2)
			o2.Roots = append([]string{}, again.outcome.Roots...)
			record(o2)
		}
		// the same model with every type called R<name> (names are the users': a type may well begin with the letters of the
		// placeholder prefix "R#"): the outcome is the same up to the renaming
		renamed := proto.Clone(model).(*openfgav1.AuthorizationModel)
		for _, td := range renamed.GetTypeDefinitions() {
			td.Type = "R" + td.Type
			for _, md := range td.GetMetadata().GetRelations() {
				for _, rr := range md.GetDirectlyRelatedUserTypes() {
					rr.Type = "R" + rr.Type
				}
			}
		}
		for i := 0; i < 3; i++ {
			record(stripR(buildWG(renamed, nil).outcome))
		}
		// the same type definitions listed in another order (reversed: nothing says they come sorted): the model handed over stays
		// as it was - same content, same slice, same order - and the outcome is the model's
		rev := proto.Clone(model).(*openfgav1.AuthorizationModel)
		for i, j := 0, len(rev.TypeDefinitions)-1; i < j; i, j = i+1, j-1 {
			rev.TypeDefinitions[i], rev.TypeDefinitions[j] = rev.TypeDefinitions[j], rev.TypeDefinitions[i]
		}
		revBefore := proto.Clone(rev).(*openfgav1.AuthorizationModel)
		revSlice := sliceIdentity(rev)
		record(buildWG(rev, nil).outcome)
		revChanged := !proto.Equal(revBefore, rev)
		for i, td := range rev.GetTypeDefinitions() {
			if i >= len(revSlice) || revSlice[i] != td {
				revChanged = true
			}
		}
		// the stored form of a model carries an id, and ids are not content: every model of this run is built once more under ONE id
		// (the same id in two stores, a fixture id) - the graph is a function of the type definitions handed over
		sameID := proto.Clone(model).(*openfgav1.AuthorizationModel)
		sameID.Id = "01HVERIFSAMEIDFORALLMODELS"
		for i := 0; i < 2; i++ {
			record(buildWG(sameID, nil).outcome)
		}
		// ... and assembled from shared building blocks: structurally equal subtrees are one message value (proto.Equal to the model above)
		sharedAbs := *inp.M
		sharedAbs.SharedNodes = true
		sharedModel := protoModel(&sharedAbs)
		for i := 0; i < 3; i++ {
			run := buildWG(sharedModel, nil)
			if obs.Structure != nil && (run.st == nil || !sameJSON(run.st, obs.Structure)) {
				obs.SharedStructureDiffers = true
			}
			record(run.outcome)
		}
		if obs.Structure != nil {
			for _, n := range obs.Structure.Nodes {
				if n.Nt == "rel" || n.Nt == "op" {
					nonTerm = append(nonTerm, n.ID)
				}
			}
			for _, ro := range inp.Roots {
				run := buildWG(model, ro)
				c := *run.outcome
				obs.Witness = append(obs.Witness, &c)
				record(run.outcome)
			}
			perms, all := permutations(nonTerm, *maxPerm, rng)
			obs.Exhaustive = all
			for _, p := range perms {
				record(buildWG(model, p).outcome)
			}
		}
		if *perm && obs.Structure != nil {
			// permutations of the type definitions: same structure, same outcome set expected
			tds := model.GetTypeDefinitions()
			idx := make([]string, len(tds))
			for i := range tds {
				idx[i] = fmt.Sprint(i)
			}
			tperms, _ := permutations(idx, 24, rng)
			seenT := map[string]bool{}
			for _, p := range tperms {
				pm := proto.Clone(model).(*openfgav1.AuthorizationModel)
				pm.TypeDefinitions = nil
				for _, s := range p {
					var i int
					fmt.Sscan(s, &i)
					pm.TypeDefinitions = append(pm.TypeDefinitions, proto.Clone(tds[i]).(*openfgav1.TypeDefinition))
				}
				for k := 0; k < 3; k++ {
					o := buildWG(pm, nil).outcome
					if !seenT[o.key] {
						seenT[o.key] = true
						obs.TypePerm = append(obs.TypePerm, o)
					}
				}
			}
			// a type whose relations are spread over two definitions of the same name (nothing in the builder's input forbids it): whatever
			// the builder makes of it, it makes the same of it in every order of the definitions
			if split := splitTypeDefs(model); split != nil {
				sidx := make([]string, len(split.TypeDefinitions))
				for i := range sidx {
					sidx[i] = fmt.Sprint(i)
				}
				sperms, _ := permutations(sidx, 12, rng)
				seenS := map[string]bool{}
				for _, p := range sperms {
					pm := &openfgav1.AuthorizationModel{SchemaVersion: split.SchemaVersion, Conditions: split.Conditions}
					for _, s := range p {
						var i int
						fmt.Sscan(s, &i)
						pm.TypeDefinitions = append(pm.TypeDefinitions, proto.Clone(split.TypeDefinitions[i]).(*openfgav1.TypeDefinition))
					}
					o := buildWG(pm, nil).outcome
					if !seenS[o.key] {
						seenS[o.key] = true
						obs.SplitPerm = append(obs.SplitPerm, o)
					}
				}
			}
			base := buildWG(model, nil).outcome
			for _, op := range operandPerms(inp.M) {
				o := buildWG(protoModel(op.m), nil).outcome
				obs.OpPerm = append(obs.OpPerm, wgOpPerm{Desc: op.desc, RelRows: relRows(o), BaseRows: relRows(base), Result: o.Result, Base: base.Result})
			}
		}
		sharedChanged := false
		for round := 0; *conc > 0 && round < 3; round++ {
			// the goroutines of a round share ONE model value whose type definitions are not in sorted order (rounds 1, 2: reversed,
			// rotated; a fresh value per round: whoever sorts in place leaves it sorted); odd goroutines build private copies
			shared := proto.Clone(model).(*openfgav1.AuthorizationModel)
			if n := len(shared.TypeDefinitions); round > 0 && n > 1 {
				tds := append([]*openfgav1.TypeDefinition{}, shared.TypeDefinitions...)
				for i := range tds {
					if round == 1 {
						shared.TypeDefinitions[i] = tds[n-1-i]
					} else {
						shared.TypeDefinitions[i] = tds[(i+n/2)%n]
					}
				}
			}
			sharedBefore := proto.Clone(shared).(*openfgav1.AuthorizationModel)
			// rounds 1 and 2: the goroutines also share ONE builder value (a builder has no state of its own; whatever it keeps
			// per Build call must not leak between calls that overlap)
			oneBuilder := graph.NewWeightedAuthorizationModelGraphBuilder()
			var wg sync.WaitGroup
			res := make([]*wgOutcome, *conc)
			for i := 0; i < *conc; i++ {
				wg.Add(1)
				go func(i int) {
					defer wg.Done()
					m := shared // shared, read-only
					if i%2 == 1 {
						m = proto.Clone(sharedBefore).(*openfgav1.AuthorizationModel)
					}
					var g *graph.WeightedAuthorizationModelGraph
					var err error
					var panicked any
					func() {
						defer func() { panicked = recover() }()
						b := graph.NewWeightedAuthorizationModelGraphBuilder()
						if round > 0 {
							b = oneBuilder
						}
						for rep := 0; rep < 4; rep++ { // several builds per goroutine: calls of different goroutines overlap
							g, err = b.Build(m)
						}
					}()
					cn := map[string]string{}
					if g != nil {
						cn = canonWG(g)
					}
					res[i] = outcomeOf(g, err, cn, panicked)
					res[i].Roots = []string{}
				}(i)
			}
			wg.Wait()
			seenC := map[string]bool{}
			for _, o := range obs.Conc {
				seenC[o.key] = true
			}
			for _, o := range res {
				if !seenC[o.key] {
					seenC[o.key] = true
					obs.Conc = append(obs.Conc, o)
				}
			}
			sharedChanged = sharedChanged || !proto.Equal(sharedBefore, shared)
		}
		obs.ModelUnchanged = proto.Equal(before, model) && !sharedChanged && !revChanged
		after := sliceIdentity(model)
		if len(after) != len(beforeSlice) {
			obs.ModelUnchanged = false
		} else {
			for i := range after {
				if after[i] != beforeSlice[i] {
					obs.ModelUnchanged = false
				}
			}
		}
		return w.write(obs)
	})
}
