package main

import (
	"encoding/json"
	"sort"

	openfgav1 "github.com/openfga/api/proto/openfga/v1"
)

// Abstract model: the shape shared with the TLA+ specifications (spec/WGraph.tla header).

type AbsTree struct {
	K   string     `json:"k"`
	Rel string     `json:"rel,omitempty"`
	Ts  string     `json:"ts,omitempty"`
	Ch  []*AbsTree `json:"ch,omitempty"`
}

type AbsRestr struct {
	T    string `json:"t"`
	Kind string `json:"kind"` // type | wild | uset
	Rel  string `json:"rel"`
	Cond string `json:"cond"`
}

type AbsRel struct {
	Name   string     `json:"name"`
	Rw     *AbsTree   `json:"rw"`
	Restr  []AbsRestr `json:"restr"`
	Module string     `json:"module,omitempty"`
	File   string     `json:"file,omitempty"`
}

type AbsType struct {
	Name   string   `json:"name"`
	Rels   []AbsRel `json:"rels"`
	Module string   `json:"module,omitempty"`
	File   string   `json:"file,omitempty"`
}

type AbsParam struct {
	Name string `json:"name"`
	Ty   string `json:"ty"`
	Elem string `json:"elem"`
}

type AbsCond struct {
	Name   string     `json:"name"`
	Params []AbsParam `json:"params"`
	Expr   string     `json:"expr"`
	Module string     `json:"module,omitempty"`
	File   string     `json:"file,omitempty"`
}

type AbsModel struct {
	// APIStyle: build the protobuf the way API clients write it - metadata entries only for relations with a direct
	// assignment - instead of the way the DSL transformer shapes it (an entry for every relation)
	APIStyle bool `json:"api_style,omitempty"`
	// SharedNodes: structurally equal rewrite subtrees are ONE message value, within a relation, across relations and across types
	// (what a program that assembles models from building blocks produces; proto.Equal to the unshared model)
	SharedNodes bool      `json:"shared_nodes,omitempty"`
	Schema      string    `json:"schema,omitempty"`
	Types       []AbsType `json:"types"`
	Conds       []AbsCond `json:"conds,omitempty"`
}

// absRw projects a rewrite tree. A tree nested deeper than maxRwDepth is not a tree any more (a listener that lets a Child slice
// contain its own parent builds such a value): the projection stops there with a node of kind "cyclic" instead of overflowing the stack.
const maxRwDepth = 100

func absRw(u *openfgav1.Userset) *AbsTree { return absRwD(u, 0) }

func usersetTooDeep(u *openfgav1.Userset, d int) bool {
	if d > maxRwDepth {
		return true
	}
	switch rw := u.GetUserset().(type) {
	case *openfgav1.Userset_Union:
		for _, c := range rw.Union.GetChild() {
			if usersetTooDeep(c, d+1) {
				return true
			}
		}
	case *openfgav1.Userset_Intersection:
		for _, c := range rw.Intersection.GetChild() {
			if usersetTooDeep(c, d+1) {
				return true
			}
		}
	case *openfgav1.Userset_Difference:
		return usersetTooDeep(rw.Difference.GetBase(), d+1) || usersetTooDeep(rw.Difference.GetSubtract(), d+1)
	}
	return false
}

// modelTooDeep names a relation whose rewrite contains itself (or is nested beyond any document), "" if there is none.
func modelTooDeep(m *openfgav1.AuthorizationModel) string {
	for _, td := range m.GetTypeDefinitions() {
		for name, u := range td.GetRelations() {
			if usersetTooDeep(u, 0) {
				return td.GetType() + "#" + name
			}
		}
	}
	return ""
}

func absRwD(u *openfgav1.Userset, d int) *AbsTree {
	if d > maxRwDepth {
		return &AbsTree{K: "cyclic"}
	}
	switch rw := u.GetUserset().(type) {
	case *openfgav1.Userset_This:
		return &AbsTree{K: "this"}
	case *openfgav1.Userset_ComputedUserset:
		return &AbsTree{K: "cu", Rel: rw.ComputedUserset.GetRelation()}
	case *openfgav1.Userset_TupleToUserset:
		return &AbsTree{K: "ttu", Rel: rw.TupleToUserset.GetComputedUserset().GetRelation(), Ts: rw.TupleToUserset.GetTupleset().GetRelation()}
	case *openfgav1.Userset_Union:
		t := &AbsTree{K: "union", Ch: []*AbsTree{}}
		for _, c := range rw.Union.GetChild() {
			t.Ch = append(t.Ch, absRwD(c, d+1))
		}
		return t
	case *openfgav1.Userset_Intersection:
		t := &AbsTree{K: "inter", Ch: []*AbsTree{}}
		for _, c := range rw.Intersection.GetChild() {
			t.Ch = append(t.Ch, absRwD(c, d+1))
		}
		return t
	case *openfgav1.Userset_Difference:
		return &AbsTree{K: "diff", Ch: []*AbsTree{absRwD(rw.Difference.GetBase(), d+1), absRwD(rw.Difference.GetSubtract(), d+1)}}
	}
	return &AbsTree{K: "none"}
}

func absRestr(refs []*openfgav1.RelationReference) []AbsRestr {
	out := []AbsRestr{}
	for _, rr := range refs {
		kind := "type"
		if rr.GetWildcard() != nil {
			kind = "wild"
		} else if rr.GetRelation() != "" {
			kind = "uset"
		}
		out = append(out, AbsRestr{T: rr.GetType(), Kind: kind, Rel: rr.GetRelation(), Cond: rr.GetCondition()})
	}
	return out
}

// absModel projects a protobuf model to the abstract shape. Relations (a Go map) are listed sorted by name; type
// definitions keep their order unless sortTypes is set.
func absModel(m *openfgav1.AuthorizationModel, sortTypes bool) *AbsModel {
	am := &AbsModel{Schema: m.GetSchemaVersion(), Types: []AbsType{}, Conds: []AbsCond{}}
	for _, td := range m.GetTypeDefinitions() {
		names := []string{}
		for r := range td.GetRelations() {
			names = append(names, r)
		}
		sort.Strings(names)
		at := AbsType{Name: td.GetType(), Rels: []AbsRel{}, Module: td.GetMetadata().GetModule(), File: td.GetMetadata().GetSourceInfo().GetFile()}
		for _, r := range names {
			md := td.GetMetadata().GetRelations()[r]
			at.Rels = append(at.Rels, AbsRel{Name: r, Rw: absRw(td.GetRelations()[r]), Restr: absRestr(md.GetDirectlyRelatedUserTypes()),
				Module: md.GetModule(), File: md.GetSourceInfo().GetFile()})
		}
		am.Types = append(am.Types, at)
	}
	if sortTypes {
		sort.SliceStable(am.Types, func(i, j int) bool { return am.Types[i].Name < am.Types[j].Name })
	}
	cnames := []string{}
	for c := range m.GetConditions() {
		cnames = append(cnames, c)
	}
	sort.Strings(cnames)
	for _, c := range cnames {
		cd := m.GetConditions()[c]
		ac := AbsCond{Name: cd.GetName(), Expr: cd.GetExpression(), Params: []AbsParam{}, Module: cd.GetMetadata().GetModule(), File: cd.GetMetadata().GetSourceInfo().GetFile()}
		pn := []string{}
		for p := range cd.GetParameters() {
			pn = append(pn, p)
		}
		sort.Strings(pn)
		for _, p := range pn {
			pt := cd.GetParameters()[p]
			ap := AbsParam{Name: p, Ty: pt.GetTypeName().String()}
			if len(pt.GetGenericTypes()) > 0 {
				ap.Elem = pt.GetGenericTypes()[0].GetTypeName().String()
			}
			ac.Params = append(ac.Params, ap)
		}
		am.Conds = append(am.Conds, ac)
	}
	return am
}

func protoRw(t *AbsTree) *openfgav1.Userset {
	switch t.K {
	case "this":
		return &openfgav1.Userset{Userset: &openfgav1.Userset_This{This: &openfgav1.DirectUserset{}}}
	case "cu":
		return &openfgav1.Userset{Userset: &openfgav1.Userset_ComputedUserset{ComputedUserset: &openfgav1.ObjectRelation{Relation: t.Rel}}}
	case "ttu":
		return &openfgav1.Userset{Userset: &openfgav1.Userset_TupleToUserset{TupleToUserset: &openfgav1.TupleToUserset{
			Tupleset:        &openfgav1.ObjectRelation{Relation: t.Ts},
			ComputedUserset: &openfgav1.ObjectRelation{Relation: t.Rel}}}}
	case "union":
		ch := []*openfgav1.Userset{}
		for _, c := range t.Ch {
			ch = append(ch, protoRw(c))
		}
		return &openfgav1.Userset{Userset: &openfgav1.Userset_Union{Union: &openfgav1.Usersets{Child: ch}}}
	case "inter":
		ch := []*openfgav1.Userset{}
		for _, c := range t.Ch {
			ch = append(ch, protoRw(c))
		}
		return &openfgav1.Userset{Userset: &openfgav1.Userset_Intersection{Intersection: &openfgav1.Usersets{Child: ch}}}
	case "diff":
		return &openfgav1.Userset{Userset: &openfgav1.Userset_Difference{Difference: &openfgav1.Difference{Base: protoRw(t.Ch[0]), Subtract: protoRw(t.Ch[1])}}}
	}
	return &openfgav1.Userset{}
}

// protoRwShared is protoRw with structurally equal subtrees interned
func protoRwShared(t *AbsTree, intern map[string]*openfgav1.Userset) *openfgav1.Userset {
	if t == nil {
		return nil
	}
	kb, _ := json.Marshal(t)
	if u, ok := intern[string(kb)]; ok {
		return u
	}
	var u *openfgav1.Userset
	switch t.K {
	case "union", "inter":
		ch := []*openfgav1.Userset{}
		for _, c := range t.Ch {
			ch = append(ch, protoRwShared(c, intern))
		}
		if t.K == "union" {
			u = &openfgav1.Userset{Userset: &openfgav1.Userset_Union{Union: &openfgav1.Usersets{Child: ch}}}
		} else {
			u = &openfgav1.Userset{Userset: &openfgav1.Userset_Intersection{Intersection: &openfgav1.Usersets{Child: ch}}}
		}
	case "diff":
		u = &openfgav1.Userset{Userset: &openfgav1.Userset_Difference{Difference: &openfgav1.Difference{Base: protoRwShared(t.Ch[0], intern), Subtract: protoRwShared(t.Ch[1], intern)}}}
	default:
		u = protoRw(t)
	}
	intern[string(kb)] = u
	return u
}

func protoRestr(rs []AbsRestr) []*openfgav1.RelationReference {
	out := []*openfgav1.RelationReference{}
	for _, r := range rs {
		rr := &openfgav1.RelationReference{Type: r.T, Condition: r.Cond}
		switch r.Kind {
		case "wild":
			rr.RelationOrWildcard = &openfgav1.RelationReference_Wildcard{Wildcard: &openfgav1.Wildcard{}}
		case "uset":
			rr.RelationOrWildcard = &openfgav1.RelationReference_Relation{Relation: r.Rel}
		}
		out = append(out, rr)
	}
	return out
}

var paramTypes = map[string]openfgav1.ConditionParamTypeRef_TypeName{}

func init() {
	for k, v := range openfgav1.ConditionParamTypeRef_TypeName_value {
		paramTypes[k] = openfgav1.ConditionParamTypeRef_TypeName(v)
	}
}

// protoModel builds the protobuf model the way the DSL transformer shapes it (metadata entry for every relation,
// metadata nil for a type without relations unless it carries module information).
func protoModel(am *AbsModel) *openfgav1.AuthorizationModel {
	schema := am.Schema
	if schema == "" {
		schema = "1.1"
	}
	m := &openfgav1.AuthorizationModel{SchemaVersion: schema}
	intern := map[string]*openfgav1.Userset{}
	for _, at := range am.Types {
		td := &openfgav1.TypeDefinition{Type: at.Name, Relations: map[string]*openfgav1.Userset{}}
		if len(at.Rels) > 0 || at.Module != "" || at.File != "" {
			td.Metadata = &openfgav1.Metadata{Relations: map[string]*openfgav1.RelationMetadata{}, Module: at.Module}
			if at.File != "" {
				td.Metadata.SourceInfo = &openfgav1.SourceInfo{File: at.File}
			}
		}
		for _, ar := range at.Rels {
			td.Relations[ar.Name] = protoRw(ar.Rw)
			if am.SharedNodes {
				td.Relations[ar.Name] = protoRwShared(ar.Rw, intern)
			}
			rm := &openfgav1.RelationMetadata{DirectlyRelatedUserTypes: protoRestr(ar.Restr), Module: ar.Module}
			if ar.File != "" {
				rm.SourceInfo = &openfgav1.SourceInfo{File: ar.File}
			}
			if am.APIStyle && !hasThis(ar.Rw) {
				continue
			}
			td.Metadata.Relations[ar.Name] = rm
		}
		m.TypeDefinitions = append(m.TypeDefinitions, td)
	}
	if len(am.Conds) > 0 {
		m.Conditions = map[string]*openfgav1.Condition{}
		for _, ac := range am.Conds {
			c := &openfgav1.Condition{Name: ac.Name, Expression: ac.Expr, Parameters: map[string]*openfgav1.ConditionParamTypeRef{}}
			for _, p := range ac.Params {
				pt := &openfgav1.ConditionParamTypeRef{TypeName: paramTypes[p.Ty]}
				if p.Elem != "" {
					pt.GenericTypes = []*openfgav1.ConditionParamTypeRef{{TypeName: paramTypes[p.Elem]}}
				}
				c.Parameters[p.Name] = pt
			}
			if ac.Module != "" || ac.File != "" {
				c.Metadata = &openfgav1.ConditionMetadata{Module: ac.Module}
				if ac.File != "" {
					c.Metadata.SourceInfo = &openfgav1.SourceInfo{File: ac.File}
				}
			}
			m.Conditions[ac.Name] = c
		}
	}
	return m
}

func hasThis(t *AbsTree) bool {
	if t == nil {
		return false
	}
	if t.K == "this" {
		return true
	}
	for _, c := range t.Ch {
		if hasThis(c) {
			return true
		}
	}
	return false
}
